(* Auxiliary definitions and lemmas for Gen/TieReg.v (the translator tie of csr.Register, harness/translate7.py).
   Nothing here mentions generated text: this file relates the Python-object vocabulary of Lib/PyReg.v
   (pyv, for_res, dict_set, mapping_items ...) and hand-written REFERENCE loop bodies to Model/RegPack.v.
   Gen/TieReg.v then only has to show that each generated loop body is pointwise equal to its reference body. *)
From Coq Require Import ZArith List Bool Lia Arith ZifyBool.
From Soc Require Import Lib.Bits Model.RegPack Proofs.RegPack.
From Soc Require Import Lib.Res Lib.PyReg.
Import ListNotations.
Open Scope Z_scope.

(* ================================================================================================ *)
(* 1. model trees as Python objects                                                                   *)

(* what the caller writes: Field / dict / list / something else *)
Fixpoint desc_of (t : ftree) : pyv :=
  match t with
  | Leaf w a => PField w a
  | Junk => POther
  | Map l => PDict (map (fun kx => (KStr (fst kx), desc_of (snd kx))) l)
  | Arr l => PList (map desc_of l)
  end.

(* what construction makes of it: FieldAction / FieldActionMap / FieldActionArray *)
Fixpoint inst_of (t : ftree) : pyv :=
  match t with
  | Leaf w a => PAction w a
  | Junk => POther
  | Map l => PAMap (map (fun kx => (KStr (fst kx), inst_of (snd kx))) l)
  | Arr l => PAArr (map inst_of l)
  end.

Definition key_atom (k : pykey) : Z := match k with KStr a => a | KInt i => i end.

(* the tree a description denotes (left inverse of desc_of) *)
Fixpoint tree_of (v : pyv) : ftree :=
  match v with
  | PField w a => Leaf w a
  | PDict l => Map (map (fun kx => (key_atom (fst kx), tree_of (snd kx))) l)
  | PList l => Arr (map tree_of l)
  | _ => Junk
  end.

(* the tree an instantiated collection denotes (left inverse of inst_of) *)
Fixpoint itree_of (v : pyv) : ftree :=
  match v with
  | PAction w a => Leaf w a
  | PAMap l => Map (map (fun kx => (key_atom (fst kx), itree_of (snd kx))) l)
  | PAArr l => Arr (map itree_of l)
  | _ => Junk
  end.

Lemma tree_of_desc t : tree_of (desc_of t) = t.
Proof.
  induction t as [w a| |l IH|l IH] using ftree_ind2; cbn [desc_of tree_of]; try reflexivity.
  - f_equal. rewrite map_map. induction IH as [|[k x] l Hx _ IHl]; [reflexivity|].
    cbn [map fst snd key_atom] in *. rewrite Hx, IHl. reflexivity.
  - f_equal. rewrite map_map. induction IH as [|x l Hx _ IHl]; [reflexivity|].
    cbn [map]. rewrite Hx, IHl. reflexivity.
Qed.

Lemma itree_of_inst t : itree_of (inst_of t) = t.
Proof.
  induction t as [w a| |l IH|l IH] using ftree_ind2; cbn [inst_of itree_of]; try reflexivity.
  - f_equal. rewrite map_map. induction IH as [|[k x] l Hx _ IHl]; [reflexivity|].
    cbn [map fst snd key_atom] in *. rewrite Hx, IHl. reflexivity.
  - f_equal. rewrite map_map. induction IH as [|x l Hx _ IHl]; [reflexivity|].
    cbn [map]. rewrite Hx, IHl. reflexivity.
Qed.

(* Python guarantees that the keys of a dict are distinct; the model's association lists do not *)
Inductive wf : ftree -> Prop :=
| wf_leaf w a : wf (Leaf w a)
| wf_junk : wf Junk
| wf_map l : NoDup (map fst l) -> Forall (fun kx => wf (snd kx)) l -> wf (Map l)
| wf_arr l : Forall wf l -> wf (Arr l).

Definition wf_opt (o : option ftree) : Prop := match o with Some t => wf t | None => True end.

Lemma wf_Map_inv l : wf (Map l) -> NoDup (map fst l) /\ Forall (fun kx => wf (snd kx)) l.
Proof. intros H. inversion H. split; assumption. Qed.
Lemma wf_Arr_inv l : wf (Arr l) -> Forall wf l.
Proof. intros H. inversion H. assumption. Qed.

(* ================================================================================================ *)
(* 2. generic facts about the Python primitives                                                       *)

Lemma bind_ok_eta {A} (r : res A) : (let! x := r in Ok x) = r.
Proof. destruct r; reflexivity. Qed.

Lemma nilb_map {A B} (f : A -> B) l : nilb (map f l) = nilb l.
Proof. destruct l; reflexivity. Qed.
Lemma nilb_is_nil {A} (l : list A) : nilb l = is_nil l.
Proof. destruct l; reflexivity. Qed.
Lemma zlen_eq0 {A} (l : list A) : (zlen l =? 0) = nilb l.
Proof. destruct l as [|x l]; [reflexivity|]. unfold zlen. cbn [length nilb]. lia. Qed.

Lemma for_res_ext_in {X S} (f g : X -> S -> res (bool * S)) l :
  (forall x, In x l -> forall s, f x s = g x s) -> forall s, for_res f l s = for_res g l s.
Proof.
  induction l as [|x l IH]; intros H s; [reflexivity|].
  cbn [for_res]. rewrite (H x (or_introl eq_refl)).
  destruct (g x s) as [[[|] s']|e]; try reflexivity.
  apply IH. intros y Hy. apply H. right. exact Hy.
Qed.

Lemma for_res_ext {X S} (f g : X -> S -> res (bool * S)) :
  (forall x s, f x s = g x s) -> forall l s, for_res f l s = for_res g l s.
Proof. intros H l s. apply for_res_ext_in. intros x _ s'. apply H. Qed.

(* a loop that appends one value per item: `yield g(x)` / `out.append(g(x))` *)
Lemma for_res_yield {X Y} (f : X -> list Y -> res (bool * list Y)) (g : X -> Y) l :
  (forall x, In x l -> forall s, f x s = Ok (true, s ++ [g x])) -> forall s, for_res f l s = Ok (s ++ map g l).
Proof.
  induction l as [|x l IH]; intros H s; cbn [for_res map]; [rewrite app_nil_r; reflexivity|].
  rewrite (H x (or_introl eq_refl)). rewrite IH; [|intros y Hy; apply H; right; exact Hy].
  rewrite <- app_assoc. reflexivity.
Qed.

(* a loop that appends a possibly failing value per item *)
Lemma for_res_append {X Y} (f : X -> list Y -> res (bool * list Y)) (g : X -> res Y) l :
  (forall x, In x l -> forall s, f x s = let! y := g x in Ok (true, s ++ [y])) ->
  forall s, for_res f l s = let! ys := mapR g l in Ok (s ++ ys).
Proof.
  induction l as [|x l IH]; intros H s; cbn [for_res mapR bind]; [rewrite app_nil_r; reflexivity|].
  rewrite (H x (or_introl eq_refl)). destruct (g x) as [y|e]; cbn [bind]; [|reflexivity].
  rewrite IH; [|intros z Hz; apply H; right; exact Hz].
  destruct (mapR g l) as [ys|e]; cbn [bind]; [|reflexivity]. rewrite <- app_assoc. reflexivity.
Qed.

(* a loop that appends a possibly failing LIST of values per item: nested `for ...: yield` *)
Lemma for_res_extend {X Y} (f : X -> list Y -> res (bool * list Y)) (g : X -> res (list Y)) l :
  (forall x, In x l -> forall s, f x s = let! ys := g x in Ok (true, s ++ ys)) ->
  forall s, for_res f l s = let! yss := mapR g l in Ok (s ++ concat yss).
Proof.
  induction l as [|x l IH]; intros H s; cbn [for_res mapR bind concat]; [rewrite app_nil_r; reflexivity|].
  rewrite (H x (or_introl eq_refl)). destruct (g x) as [y|e]; cbn [bind]; [|reflexivity].
  rewrite IH; [|intros z Hz; apply H; right; exact Hz].
  destruct (mapR g l) as [ys|e]; cbn [bind concat]; [|reflexivity]. rewrite <- app_assoc. reflexivity.
Qed.

(* --- dicts --- *)
Lemma key_eqb_eq a b : key_eqb a b = true <-> a = b.
Proof.
  destruct a as [x|x], b as [y|y]; cbn [key_eqb]; split; intros H; try discriminate;
    try (apply Z.eqb_eq in H; congruence); inversion H; apply Z.eqb_refl.
Qed.

Lemma dict_set_fresh {X} (d : list (pykey * X)) k v :
  ~ In k (map fst d) -> dict_set d k v = d ++ [(k, v)].
Proof.
  induction d as [|[k' v'] d IH]; intros H; [reflexivity|].
  cbn [dict_set app]. destruct (key_eqb k' k) eqn:E.
  - apply key_eqb_eq in E. exfalso. apply H. left. exact E.
  - rewrite IH; [reflexivity|]. intros Hin. apply H. right. exact Hin.
Qed.

Lemma dict_lookup_in {X} (d : list (pykey * X)) k v :
  NoDup (map fst d) -> In (k, v) d -> dict_lookup d k = Ok v.
Proof.
  induction d as [|[k' v'] d IH]; intros Hnd Hin; [destruct Hin|].
  cbn [dict_lookup]. cbn [map fst] in Hnd. inversion Hnd as [|? ? Hnot Hnd']; subst.
  destruct Hin as [Heq|Hin].
  - inversion Heq; subst. assert (E : key_eqb k k = true) by (apply key_eqb_eq; reflexivity). rewrite E. reflexivity.
  - destruct (key_eqb k' k) eqn:E.
    + apply key_eqb_eq in E. subst k'. exfalso. apply Hnot. apply (in_map fst) in Hin. exact Hin.
    + apply IH; assumption.
Qed.

(* Mapping.items() of an object whose __iter__ yields the keys of d and whose __getitem__ is d[k] *)
Lemma mapping_items_dict {X} (d : list (pykey * X)) it gi :
  NoDup (map fst d) -> it = Ok (map fst d) -> (forall k, gi k = dict_lookup d k) -> mapping_items it gi = Ok d.
Proof.
  intros Hnd -> Hgi. unfold mapping_items. cbn [bind].
  assert (H : forall l, incl l d -> mapR (fun k => let! v := gi k in Ok (k, v)) (map fst l) = Ok l).
  { induction l as [|[k v] l IH]; intros Hincl; [reflexivity|].
    cbn [map fst mapR]. rewrite Hgi. rewrite (dict_lookup_in d k v Hnd); [|apply Hincl; left; reflexivity].
    cbn [bind]. rewrite IH; [reflexivity|]. intros x Hx. apply Hincl. right. exact Hx. }
  apply H. apply incl_refl.
Qed.

(* a loop that stores, skips or fails per item: dst[key] = v under an `if`, over distinct keys *)
Fixpoint collect {A} (g : A -> res (option pyv)) (l : list (pykey * A)) : res (list (pykey * pyv)) :=
  match l with
  | [] => Ok []
  | (k, a) :: l' =>
      match g a with
      | Err e => Err e
      | Ok o => match collect g l' with
                | Err e => Err e
                | Ok r => Ok (match o with Some v => (k, v) :: r | None => r end)
                end
      end
  end.

Lemma collect_keys {A} (g : A -> res (option pyv)) l r :
  collect g l = Ok r -> incl (map fst r) (map fst l).
Proof.
  revert r; induction l as [|[k a] l IH]; intros r H; cbn [collect] in H.
  - inversion H. apply incl_refl.
  - destruct (g a) as [o|e]; [|discriminate]. destruct (collect g l) as [r'|e]; [|discriminate].
    inversion H; subst. specialize (IH r' eq_refl). destruct o; cbn [map fst].
    + intros x [Hx|Hx]; [left; exact Hx|right; apply IH; exact Hx].
    + intros x Hx. right. apply IH. exact Hx.
Qed.

Lemma for_res_collect {A} (f : pykey * A -> list (pykey * pyv) -> res (bool * list (pykey * pyv)))
      (g : A -> res (option pyv)) l :
  (forall x, In x l -> forall d, f x d =
     let! o := g (snd x) in Ok (true, match o with Some v => dict_set d (fst x) v | None => d end)) ->
  NoDup (map fst l) ->
  forall d, (forall k, In k (map fst l) -> ~ In k (map fst d)) ->
  for_res f l d = let! r := collect g l in Ok (d ++ r).
Proof.
  induction l as [|[k a] l IH]; intros Hf Hnd d Hd; cbn [for_res collect bind]; [rewrite app_nil_r; reflexivity|].
  rewrite (Hf (k, a) (or_introl eq_refl)). cbn [fst snd]. cbn [map fst] in Hnd.
  inversion Hnd as [|? ? Hnot Hnd']; subst.
  destruct (g a) as [o|e]; cbn [bind]; [|reflexivity].
  assert (Hf' : forall x, In x l -> forall d, f x d =
     let! o := g (snd x) in Ok (true, match o with Some v => dict_set d (fst x) v | None => d end)).
  { intros x Hx. apply Hf. right. exact Hx. }
  destruct o as [v|].
  - rewrite dict_set_fresh; [|apply Hd; left; reflexivity].
    rewrite (IH Hf' Hnd').
    + destruct (collect g l) as [r|e]; cbn [bind]; [|reflexivity]. rewrite <- app_assoc. reflexivity.
    + intros k' Hk'. rewrite map_app. cbn [map fst]. intros Hin. apply in_app_or in Hin. destruct Hin as [Hin|[Hin|[]]].
      * apply (Hd k'); [right; exact Hk'|exact Hin].
      * subst k'. apply Hnot. exact Hk'.
  - rewrite (IH Hf' Hnd').
    + destruct (collect g l) as [r|e]; reflexivity.
    + intros k' Hk'. apply Hd. right. exact Hk'.
Qed.

(* enumerate *)
Lemma enum_from_fst_in {X} (l : list X) : forall i k, In k (map fst (enum_from i l)) -> exists j, k = KInt j /\ i <= j.
Proof.
  induction l as [|x l IH]; intros i k H; [destruct H|].
  cbn [enum_from map fst] in H. destruct H as [H|H].
  - exists i. split; [symmetry; exact H|lia].
  - destruct (IH _ _ H) as (j & -> & Hj). exists j. split; [reflexivity|lia].
Qed.

Lemma enum_from_nodup {X} (l : list X) : forall i, NoDup (map fst (enum_from i l)).
Proof.
  induction l as [|x l IH]; intros i; cbn [enum_from map fst]; constructor; [|apply IH].
  intros H. destruct (enum_from_fst_in _ _ _ H) as (j & Hj & Hle). inversion Hj. lia.
Qed.

Lemma enum_from_snd {X} (l : list X) : forall i, map snd (enum_from i l) = l.
Proof. induction l as [|x l IH]; intros i; cbn [enum_from map snd]; [reflexivity|]. rewrite IH. reflexivity. Qed.

Lemma enum_from_map {X Y} (f : X -> Y) (l : list X) : forall i,
  enum_from i (map f l) = map (fun kx => (fst kx, f (snd kx))) (enum_from i l).
Proof. induction l as [|x l IH]; intros i; cbn [enum_from map fst snd]; [reflexivity|]. rewrite IH. reflexivity. Qed.

(* ================================================================================================ *)
(* 3. construction: FieldActionMap(x) / FieldActionArray(x) as model-defined functions               *)

Definition new_of (v : pyv) : res pyv :=
  let t := tree_of v in if build_ok t then Ok (inst_of t) else Err TypeError.
Definition new_map_of (v : pyv) : res pyv := if is_dict v then new_of v else Err TypeError.
Definition new_arr_of (v : pyv) : res pyv := if is_list v then new_of v else Err TypeError.

(* reference: the if / elif chain both __init__ loops apply to one value *)
Definition build1 (v : pyv) : res pyv :=
  if is_field v then field_create v
  else if is_dict v then new_map_of v
  else if is_list v then new_arr_of v
  else Err TypeError.

Lemma build1_desc t : build1 (desc_of t) = if build_ok t then Ok (inst_of t) else Err TypeError.
Proof.
  unfold build1, new_map_of, new_arr_of, new_of.
  destruct t as [w a| |l|l]; cbn [desc_of is_field is_dict is_list field_create]; try reflexivity.
  - change (PDict _) with (desc_of (Map l)). rewrite tree_of_desc. reflexivity.
  - change (PList _) with (desc_of (Arr l)). rewrite tree_of_desc. reflexivity.
Qed.

Definition d_items (l : list (Z * ftree)) : list (pykey * pyv) := map (fun kx => (KStr (fst kx), desc_of (snd kx))) l.
Definition i_items (l : list (Z * ftree)) : list (pykey * pyv) := map (fun kx => (KStr (fst kx), inst_of (snd kx))) l.

Lemma d_items_keys l : map fst (d_items l) = map KStr (map fst l).
Proof. unfold d_items. rewrite !map_map. reflexivity. Qed.
Lemma i_items_keys l : map fst (i_items l) = map KStr (map fst l).
Proof. unfold i_items. rewrite !map_map. reflexivity. Qed.
Lemma nodup_kstr l : NoDup l -> NoDup (map KStr l).
Proof.
  induction 1 as [|x l Hn Hnd IH]; cbn [map]; constructor; [|exact IH].
  intros H. apply in_map_iff in H. destruct H as (y & Hy & Hin). inversion Hy; subst. contradiction.
Qed.

Lemma collect_build l :
  collect (fun v => let! y := build1 v in Ok (Some y)) (d_items l)
  = if forallb (fun kx => build_ok (snd kx)) l then Ok (i_items l) else Err TypeError.
Proof.
  induction l as [|[k x] l IH]; [reflexivity|].
  cbn [d_items i_items map fst snd collect forallb]. fold (d_items l) (i_items l).
  rewrite build1_desc. destruct (build_ok x); cbn [bind andb]; [|reflexivity].
  rewrite IH. destruct (forallb _ l); reflexivity.
Qed.

(* FieldActionMap.__init__: the loop over fields.items() *)
Lemma build_map_loop f l :
  NoDup (map fst l) ->
  (forall x, In x (d_items l) -> forall d, f x d = let! y := build1 (snd x) in Ok (true, dict_set d (fst x) y)) ->
  for_res f (d_items l) [] = if forallb (fun kx => build_ok (snd kx)) l then Ok (i_items l) else Err TypeError.
Proof.
  intros Hnd Hf.
  rewrite (for_res_collect f (fun v => let! y := build1 v in Ok (Some y))).
  - rewrite collect_build. destruct (forallb _ l); reflexivity.
  - intros x Hx d. rewrite (Hf x Hx). destruct (build1 (snd x)); reflexivity.
  - rewrite d_items_keys. apply nodup_kstr. exact Hnd.
  - intros k _ [].
Qed.

Lemma mapR_build l :
  mapR build1 (map desc_of l) = if forallb build_ok l then Ok (map inst_of l) else Err TypeError.
Proof.
  induction l as [|x l IH]; [reflexivity|].
  cbn [map mapR forallb]. rewrite build1_desc. destruct (build_ok x); cbn [andb]; [|reflexivity].
  rewrite IH. destruct (forallb build_ok l); reflexivity.
Qed.

(* FieldActionArray.__init__: the loop over fields *)
Lemma build_arr_loop f l :
  (forall x, In x (map desc_of l) -> forall s, f x s = let! y := build1 x in Ok (true, s ++ [y])) ->
  for_res f (map desc_of l) [] = if forallb build_ok l then Ok (map inst_of l) else Err TypeError.
Proof.
  intros Hf. rewrite (for_res_append f build1 _ Hf). rewrite mapR_build.
  destruct (forallb build_ok l); reflexivity.
Qed.

Lemma new_of_Map l :
  new_map_of (desc_of (Map l)) =
  if nilb l then Err TypeError
  else if forallb (fun kx => build_ok (snd kx)) l then Ok (PAMap (i_items l)) else Err TypeError.
Proof.
  unfold new_map_of, new_of. rewrite tree_of_desc. cbn [desc_of is_dict]. rewrite build_ok_Map.
  destruct l; [reflexivity|]. cbn [is_nil nilb negb andb]. reflexivity.
Qed.

Lemma new_of_Arr l :
  new_arr_of (desc_of (Arr l)) =
  if nilb l then Err TypeError
  else if forallb build_ok l then Ok (PAArr (map inst_of l)) else Err TypeError.
Proof.
  unfold new_arr_of, new_of. rewrite tree_of_desc. cbn [desc_of is_list]. rewrite build_ok_Arr.
  destruct l; [reflexivity|]. cbn [is_nil nilb negb andb]. reflexivity.
Qed.

(* what the model-defined constructors mean in model terms *)
Lemma new_map_of_desc t :
  new_map_of (desc_of t) = match t with Map _ => if build_ok t then Ok (inst_of t) else Err TypeError | _ => Err TypeError end.
Proof. unfold new_map_of, new_of. rewrite tree_of_desc. destruct t; reflexivity. Qed.
Lemma new_arr_of_desc t :
  new_arr_of (desc_of t) = match t with Arr _ => if build_ok t then Ok (inst_of t) else Err TypeError | _ => Err TypeError end.
Proof. unfold new_arr_of, new_of. rewrite tree_of_desc. destruct t; reflexivity. Qed.

(* ================================================================================================ *)
(* 4. flatten: x.flatten() as a model-defined function, with paths                                   *)

Definition pre (k : pykey) (pf : list pykey * pyv) : list pykey * pyv := (k :: fst pf, snd pf).

Definition flat_arr_with (F : ftree -> list (list pykey * pyv)) :=
  fix go (i : Z) (l : list ftree) : list (list pykey * pyv) :=
    match l with
    | [] => []
    | x :: l' => map (pre (KInt i)) (F x) ++ go (i + 1) l'
    end.

(* (path, field action) in iteration order; a single field has the empty path (Register.__iter__) *)
Fixpoint flat_paths (t : ftree) : list (list pykey * pyv) :=
  match t with
  | Leaf w a => [([], PAction w a)]
  | Junk => [([], POther)]
  | Map l => flat_map (fun kx => map (pre (KStr (fst kx))) (flat_paths (snd kx))) l
  | Arr l => flat_arr_with flat_paths 0 l
  end.

Definition flat_of (v : pyv) : res (list (list pykey * pyv)) :=
  if is_amap v || is_aarr v then Ok (flat_paths (itree_of v)) else Err OtherError.

(* reference body of both flatten loops *)
Definition flat_body (kf : pykey * pyv) (out : list (list pykey * pyv)) : res (bool * list (list pykey * pyv)) :=
  if is_amap (snd kf) || is_aarr (snd kf)
  then let! sub := flat_of (snd kf) in Ok (true, out ++ map (pre (fst kf)) sub)
  else Ok (true, out ++ [([fst kf], snd kf)]).

Lemma flat_body_inst k x out : flat_body (k, inst_of x) out = Ok (true, out ++ map (pre k) (flat_paths x)).
Proof.
  unfold flat_body, flat_of. cbn [fst snd].
  destruct x as [w a| |l|l]; cbn [inst_of is_amap is_aarr orb]; try reflexivity.
  - change (PAMap _) with (inst_of (Map l)). rewrite itree_of_inst. reflexivity.
  - change (PAArr _) with (inst_of (Arr l)). rewrite itree_of_inst. reflexivity.
Qed.

Lemma flat_map_loop f l :
  (forall x, In x (i_items l) -> forall s, f x s = flat_body x s) ->
  forall s, for_res f (i_items l) s = Ok (s ++ flat_paths (Map l)).
Proof.
  induction l as [|[k x] l IH]; intros Hf s; cbn [i_items map for_res]; [cbn; rewrite app_nil_r; reflexivity|].
  fold (i_items l). cbn [fst snd]. rewrite Hf by (left; reflexivity). rewrite flat_body_inst.
  rewrite IH by (intros y Hy; apply Hf; right; exact Hy).
  cbn [flat_paths flat_map fst snd]. rewrite <- app_assoc. reflexivity.
Qed.

Lemma flat_arr_loop f l :
  forall i, (forall x, In x (enum_from i (map inst_of l)) -> forall s, f x s = flat_body x s) ->
  forall s, for_res f (enum_from i (map inst_of l)) s = Ok (s ++ flat_arr_with flat_paths i l).
Proof.
  induction l as [|x l IH]; intros i Hf s; cbn [map enum_from for_res]; [cbn; rewrite app_nil_r; reflexivity|].
  rewrite Hf by (left; reflexivity). rewrite flat_body_inst.
  rewrite IH by (intros y Hy; apply Hf; right; exact Hy).
  cbn [flat_arr_with]. rewrite <- app_assoc. reflexivity.
Qed.

Definition act_of (f : field) : pyv := PAction (f_w f) (f_a f).

Lemma map_snd_pre k l : map snd (map (pre k) l) = map snd l.
Proof. rewrite map_map. reflexivity. Qed.

(* on a collection that construction accepts, the fields are the model's flatten, in the same order *)
Lemma flat_paths_flatten t : build_ok t = true -> map snd (flat_paths t) = map act_of (flatten t).
Proof.
  induction t as [w a| |l IH|l IH] using ftree_ind2; intros Hb.
  - reflexivity.
  - discriminate.
  - rewrite build_ok_Map in Hb. apply andb_true_iff in Hb. destruct Hb as [_ Hb].
    rewrite flatten_Map. cbn [flat_paths].
    induction IH as [|[k x] l Hx _ IHl]; [reflexivity|].
    cbn [forallb snd] in Hb. apply andb_true_iff in Hb. destruct Hb as [Hbx Hbl].
    cbn [flat_map fst snd]. rewrite !map_app, map_snd_pre. cbn [snd] in Hx. rewrite (Hx Hbx), (IHl Hbl). reflexivity.
  - rewrite build_ok_Arr in Hb. apply andb_true_iff in Hb. destruct Hb as [_ Hb].
    rewrite flatten_Arr. cbn [flat_paths]. generalize 0 as i.
    induction IH as [|x l Hx _ IHl]; intros i; [reflexivity|].
    cbn [forallb] in Hb. apply andb_true_iff in Hb. destruct Hb as [Hbx Hbl].
    cbn [flat_arr_with flat_map]. rewrite !map_app, map_snd_pre. rewrite (Hx Hbx), (IHl Hbl). reflexivity.
Qed.

(* ================================================================================================ *)
(* 5. filter_fields as a model-defined function                                                       *)

(* the implicit `return None` is what the model writes Junk for *)
Definition ret_of (t : ftree) : pyv := match t with Junk => PNone | _ => desc_of t end.
Definition ff_of (v : pyv) : res pyv := Ok (ret_of (filter_fields (tree_of v))).

Lemma py_truthy_ret t : py_truthy (ret_of t) = truthy t.
Proof. destruct t as [w a| |l|l]; cbn [ret_of desc_of py_truthy truthy]; try reflexivity; rewrite nilb_map, nilb_is_nil; reflexivity. Qed.

Lemma ret_of_truthy t : truthy t = true -> ret_of t = desc_of t.
Proof. destruct t; cbn [truthy ret_of]; intros H; try reflexivity; discriminate. Qed.

(* reference: what one iteration of filter_fields' loop stores *)
Definition filt_step (v : pyv) : res (option pyv) :=
  let! nv := ff_of v in Ok (if py_truthy nv then Some nv else None).

Lemma filt_step_desc x :
  filt_step (desc_of x) = Ok (if truthy (filter_fields x) then Some (desc_of (filter_fields x)) else None).
Proof.
  unfold filt_step, ff_of. rewrite tree_of_desc. cbn [bind]. rewrite py_truthy_ret.
  destruct (truthy (filter_fields x)) eqn:E; [|reflexivity]. rewrite (ret_of_truthy _ E). reflexivity.
Qed.

Lemma collect_filter_map l : collect filt_step (d_items l) = Ok (d_items (flat_map keep_kv l)).
Proof.
  induction l as [|[k x] l IH]; [reflexivity|].
  cbn [d_items map fst snd collect]. fold (d_items l). rewrite filt_step_desc, IH.
  cbn [flat_map].
  assert (E : keep_kv (k, x) = if truthy (filter_fields x) then [(k, filter_fields x)] else []) by reflexivity.
  rewrite E. destruct (truthy (filter_fields x)); reflexivity.
Qed.

Lemma collect_filter_arr l : forall i,
  exists r, collect filt_step (enum_from i (map desc_of l)) = Ok r /\ map snd r = map desc_of (flat_map keep_v l).
Proof.
  induction l as [|x l IH]; intros i; [exists []; split; reflexivity|].
  cbn [map enum_from collect]. rewrite filt_step_desc. destruct (IH (i + 1)) as (r & -> & Hr).
  cbn [flat_map].
  assert (E : keep_v x = if truthy (filter_fields x) then [filter_fields x] else []) by reflexivity.
  rewrite E. destruct (truthy (filter_fields x)).
  - eexists; split; [reflexivity|]. cbn [map snd app]. rewrite Hr. reflexivity.
  - eexists; split; [reflexivity|]. exact Hr.
Qed.

(* the loop of filter_fields over a dict *)
Lemma filter_map_loop f l :
  NoDup (map fst l) ->
  (forall x d, f x d = let! o := filt_step (snd x) in
                       Ok (true, match o with Some v => dict_set d (fst x) v | None => d end)) ->
  for_res f (d_items l) [] = Ok (d_items (flat_map keep_kv l)).
Proof.
  intros Hnd Hf. rewrite (for_res_collect f filt_step).
  - rewrite collect_filter_map. reflexivity.
  - intros x _ d. apply Hf.
  - rewrite d_items_keys. apply nodup_kstr. exact Hnd.
  - intros k _ [].
Qed.

(* the loop of filter_fields over a list: the dict is keyed by the enumerate index *)
Lemma filter_arr_loop f l :
  (forall x d, f x d = let! o := filt_step (snd x) in
                       Ok (true, match o with Some v => dict_set d (fst x) v | None => d end)) ->
  exists r, for_res f (enum_from 0 (map desc_of l)) [] = Ok r /\ map snd r = map desc_of (flat_map keep_v l).
Proof.
  intros Hf. rewrite (for_res_collect f filt_step).
  - destruct (collect_filter_arr l 0) as (r & -> & Hr). exists r. split; [reflexivity|exact Hr].
  - intros x _ d. apply Hf.
  - apply enum_from_nodup.
  - intros k _ [].
Qed.

Lemma ff_of_Map l : ff_of (desc_of (Map l)) = Ok (PDict (d_items (flat_map keep_kv l))).
Proof. unfold ff_of. rewrite tree_of_desc, filter_Map. reflexivity. Qed.
Lemma ff_of_Arr l : ff_of (desc_of (Arr l)) = Ok (PList (map desc_of (flat_map keep_v l))).
Proof. unfold ff_of. rewrite tree_of_desc, filter_Arr. reflexivity. Qed.

(* ================================================================================================ *)
(* 6. Register.__init__                                                                               *)

(* reference body of the width / compatibility loop *)
Definition chk_body (ra : option racc) (pf : list pykey * pyv) (w : Z) : res (bool * Z) :=
  let f := snd pf in
  if f_readable (port_access f) && negb (oe_readable ra) then Err ValueError
  else if f_writable (port_access f) && negb (oe_writable ra) then Err ValueError
  else Ok (true, w + shape_width (port_shape f)).

Lemma chk_loop ra l : forall items w,
  map snd items = map act_of l -> for_res (chk_body (Some ra)) items w = lift_res (check_fields ra l w).
Proof.
  induction l as [|f l IH]; intros items w H; destruct items as [|[p v] items]; try discriminate; [reflexivity|].
  cbn [map snd] in H. inversion H as [[Hv Hrest]]. cbn [for_res check_fields].
  unfold chk_body at 1. cbn [snd]. subst v. unfold act_of at 1 2 3. cbn [port_access port_shape oe_readable oe_writable].
  destruct (f_readable (f_a f) && negb (e_readable ra)); [reflexivity|].
  destruct (f_writable (f_a f) && negb (e_writable ra)); [reflexivity|].
  unfold shape_width. apply IH. exact Hrest.
Qed.

(* the `fields` argument: None or an object *)
Definition fields_py (o : option ftree) : pyv := match o with Some t => desc_of t | None => PNone end.

(* from `if isinstance(fields, dict)` to the end *)
Definition core_ref (fields : pyv) (access : option racc) : res (pyv * option racc * Z) :=
  let! sf := (if is_dict fields then new_map_of fields
              else if is_list fields then new_arr_of fields
              else if is_field fields then field_create fields
              else Err TypeError) in
  let! items := (if is_action sf then Ok [([], sf)] else flat_of sf) in
  let! width := for_res (chk_body access) items 0 in
  let! _ := elem_signature width access in
  Ok (sf, access, width).

(* reference: Register.__init__ written over the model-defined functions, in the code's order *)
Definition reg_init_ref (annot : option pyv) (ca : option racc) (fields : pyv) (ia : option racc)
  : res (pyv * option racc * Z) :=
  let! fields :=
    match annot with
    | Some a => let! af := ff_of a in
                if is_none fields then Ok af else if py_truthy af then Err ValueError else Ok fields
    | None => Ok fields
    end in
  let! access :=
    match ia with
    | Some a => match ca with Some c => if racc_eqb a c then Ok ia else Err ValueError | None => Ok ia end
    | None => match ca with Some _ => Ok ca | None => Err ValueError end
    end in
  core_ref fields access.

Definition lift_new (r : RegPack.res (ftree * racc * Z)) : res (pyv * option racc * Z) :=
  match r with
  | RegPack.Ok (t, ra, w) => Ok (inst_of t, Some ra, w)
  | RegPack.Err e => Err (lift_exn e)
  end.

Lemma build_desc t :
  (if is_dict (desc_of t) then new_map_of (desc_of t)
   else if is_list (desc_of t) then new_arr_of (desc_of t)
   else if is_field (desc_of t) then field_create (desc_of t)
   else Err TypeError) = if build_ok t then Ok (inst_of t) else Err TypeError.
Proof.
  destruct t as [w a| |l|l]; cbn [desc_of is_dict is_list is_field field_create]; try reflexivity.
  - change (PDict _) with (desc_of (Map l)). rewrite new_map_of_desc. reflexivity.
  - change (PList _) with (desc_of (Arr l)). rewrite new_arr_of_desc. reflexivity.
Qed.

Lemma iter_inst t : build_ok t = true ->
  (if is_action (inst_of t) then Ok [([], inst_of t)] else flat_of (inst_of t)) = Ok (flat_paths t).
Proof.
  unfold flat_of. destruct t as [w a| |l|l]; cbn [inst_of is_action is_amap is_aarr orb]; intros Hb; try reflexivity.
  - discriminate.
  - change (PAMap _) with (inst_of (Map l)). rewrite itree_of_inst. reflexivity.
  - change (PAArr _) with (inst_of (Arr l)). rewrite itree_of_inst. reflexivity.
Qed.

Lemma core_ref_desc t ra :
  core_ref (desc_of t) (Some ra) =
  match reg_core t ra with RegPack.Ok w => Ok (inst_of t, Some ra, w) | RegPack.Err e => Err (lift_exn e) end.
Proof.
  unfold core_ref, reg_core. rewrite build_desc. destruct (build_ok t) eqn:Hb; cbn [bind]; [|reflexivity].
  rewrite (iter_inst t Hb). cbn [bind].
  rewrite (chk_loop ra (flatten t) (flat_paths t) 0 (flat_paths_flatten t Hb)).
  destruct (check_fields ra (flatten t) 0) as [w|e]; cbn [lift_res bind]; [|reflexivity].
  unfold elem_signature. destruct (w <? 0); reflexivity.
Qed.

Lemma core_ref_none ra : core_ref PNone (Some ra) = Err TypeError.
Proof. reflexivity. Qed.

Theorem reg_init_ref_new annot fields ca ia :
  reg_init_ref (option_map desc_of annot) ca (fields_py fields) ia = lift_new (reg_new annot fields ca ia).
Proof.
  unfold reg_init_ref, reg_new.
  (* the fields decision *)
  assert (Hcore : forall (fo : option ftree) acc,
             match acc with
             | RegPack.Ok ra => core_ref (fields_py fo) (Some ra)
             | RegPack.Err e => Err (lift_exn e)
             end =
             lift_new match acc with
                      | RegPack.Err e => RegPack.Err e
                      | RegPack.Ok ra =>
                          match fo with
                          | None => RegPack.Err RegPack.TypeError
                          | Some t => match reg_core t ra with
                                      | RegPack.Err e => RegPack.Err e
                                      | RegPack.Ok width => RegPack.Ok (t, ra, width)
                                      end
                          end
                      end).
  { intros fo [ra|e]; [|reflexivity]. destruct fo as [t|]; cbn [fields_py]; [|reflexivity].
    rewrite core_ref_desc. destruct (reg_core t ra); reflexivity. }
  (* the access decision, as a model-side result *)
  set (acc := match ia with
              | Some a => match ca with
                          | Some c => if racc_eqb a c then RegPack.Ok a else RegPack.Err RegPack.ValueError
                          | None => RegPack.Ok a
                          end
              | None => match ca with Some c => RegPack.Ok c | None => RegPack.Err RegPack.ValueError end
              end).
  assert (Hacc : forall (fo : option ftree),
             (let! access :=
                match ia with
                | Some a => match ca with Some c => if racc_eqb a c then Ok ia else Err ValueError | None => Ok ia end
                | None => match ca with Some _ => Ok ca | None => Err ValueError end
                end in core_ref (fields_py fo) access)
             = match acc with
               | RegPack.Ok ra => core_ref (fields_py fo) (Some ra)
               | RegPack.Err e => Err (lift_exn e)
               end).
  { intros fo. subst acc. destruct ia as [a|], ca as [c|]; cbn [bind]; try reflexivity.
    destruct (racc_eqb a c); reflexivity. }
  destruct annot as [a|]; cbn [option_map].
  - unfold ff_of. rewrite tree_of_desc. cbn [bind]. rewrite py_truthy_ret.
    destruct fields as [f|]; cbn [fields_py is_none].
    + assert (Hn : is_none (desc_of f) = false) by (destruct f; reflexivity). rewrite Hn.
      destruct (truthy (filter_fields a)) eqn:Ht; cbn [bind]; [reflexivity|].
      change (desc_of f) with (fields_py (Some f)). rewrite Hacc. apply Hcore.
    + cbn [bind]. destruct (filter_fields a) eqn:Hf.
      * change (ret_of (Leaf w a0)) with (fields_py (Some (Leaf w a0))). rewrite Hacc. apply Hcore.
      * change (ret_of Junk) with (fields_py None). rewrite Hacc.
        rewrite (Hcore None acc). destruct acc as [ra|e]; reflexivity.
      * change (ret_of (Map l)) with (fields_py (Some (Map l))). rewrite Hacc. apply Hcore.
      * change (ret_of (Arr l)) with (fields_py (Some (Arr l))). rewrite Hacc. apply Hcore.
  - cbn [bind]. rewrite Hacc. apply Hcore.
Qed.

(* ================================================================================================ *)
(* 7. Register.elaborate                                                                              *)

(* reference: the statements one loop iteration adds for field object f when field_start = start *)
Definition field_stmts (f : pyv) (start : Z) : list hstmt :=
  [HSub f] ++
  (if f_readable (port_access f)
   then [HEq (HSlice (HElem ElRData) start (start + shape_width (port_shape f))) (HPort f PoRData);
         HEq (HPort f PoRStb) (HElem ElRStb)]
   else []) ++
  (if f_writable (port_access f)
   then [HEq (HPort f PoWData) (HSlice (HElem ElWData) start (start + shape_width (port_shape f)));
         HEq (HPort f PoWStb) (HElem ElWStb)]
   else []).

Definition elab_body (pf : list pykey * pyv) (s : list hstmt * Z) : res (bool * (list hstmt * Z)) :=
  Ok (true, (fst s ++ field_stmts (snd pf) (snd s), snd s + shape_width (port_shape (snd pf)))).

Fixpoint stmts_from (start : Z) (l : list field) : list hstmt :=
  match l with
  | [] => []
  | f :: l' => field_stmts (act_of f) start ++ stmts_from (start + f_w f) l'
  end.

Lemma elab_loop l : forall items m s,
  map snd items = map act_of l ->
  for_res elab_body items (m, s) = Ok (m ++ stmts_from s l, s + sumz (map f_w l)).
Proof.
  induction l as [|f l IH]; intros items m s H; destruct items as [|[p v] items]; try discriminate.
  - cbn [for_res stmts_from map sumz fold_right]. rewrite app_nil_r, Z.add_0_r. reflexivity.
  - cbn [map snd] in H. inversion H as [[Hv Hrest]]. subst v.
    cbn [for_res]. unfold elab_body at 1. cbn [fst snd].
    rewrite (IH items _ _ Hrest). cbn [stmts_from map].
    assert (Hs : sumz (f_w f :: map f_w l) = f_w f + sumz (map f_w l)) by reflexivity.
    rewrite Hs. assert (Hw : shape_width (port_shape (act_of f)) = f_w f) by reflexivity.
    rewrite Hw, <- app_assoc, Z.add_assoc. reflexivity.
Qed.

(* the statements of the whole register, field by field, in terms of the model's vocabulary: field number i
   (in flatten order) gets its submodule, and the slice [offset_of l i, offset_of l i + width) *)
Definition elab_spec (l : list field) : list hstmt :=
  flat_map (fun i => match nth_error l i with
                     | Some f => field_stmts (act_of f) (offset_of l i)
                     | None => []
                     end) (seq 0 (length l)).

Lemma stmts_from_spec_gen l : forall p,
  stmts_from (sumz (map f_w p)) l =
  flat_map (fun i => match nth_error (p ++ l) i with
                     | Some f => field_stmts (act_of f) (offset_of (p ++ l) i)
                     | None => []
                     end) (seq (length p) (length l)).
Proof.
  induction l as [|f l IH]; intros p; [reflexivity|].
  cbn [stmts_from length seq flat_map].
  rewrite nth_error_app2 by lia. rewrite Nat.sub_diag. cbn [nth_error].
  unfold offset_of at 1. rewrite firstn_app, Nat.sub_diag, firstn_all. cbn [firstn]. rewrite app_nil_r.
  f_equal.
  specialize (IH (p ++ [f])). rewrite map_app, sumz_app in IH. cbn [map sumz fold_right] in IH.
  rewrite Z.add_0_r in IH. rewrite IH. rewrite <- app_assoc. cbn [app].
  rewrite app_length. cbn [length]. rewrite Nat.add_1_r. reflexivity.
Qed.

Lemma stmts_from_spec l : stmts_from 0 l = elab_spec l.
Proof. exact (stmts_from_spec_gen l []). Qed.

(* ---- what these statements MEAN, against the model's elab ----
   One field's group of statements is interpreted with that field's port.r_data value v: object identity of
   field actions is their position in iteration order, so `field.port.<m>` inside the i-th group denotes the
   port of field i. *)
Definition fout0 : fout := {| p_r_stb := false; p_w_stb := false; p_w_data := 0 |}.

Definition sem_stmt (e : ein) (v : Z) (acc : Z * fout) (s : hstmt) : Z * fout :=
  let (r, o) := acc in
  match s with
  | HEq (HSlice (HElem ElRData) lo hi) (HPort _ PoRData) => (set_slice lo (hi - lo) r v, o)
  | HEq (HPort _ PoRStb) (HElem ElRStb) =>
      (r, {| p_r_stb := e_r_stb e; p_w_stb := p_w_stb o; p_w_data := p_w_data o |})
  | HEq (HPort _ PoWData) (HSlice (HElem ElWData) lo hi) =>
      (r, {| p_r_stb := p_r_stb o; p_w_stb := p_w_stb o; p_w_data := slice lo (hi - lo) (e_w_data e) |})
  | HEq (HPort _ PoWStb) (HElem ElWStb) =>
      (r, {| p_r_stb := p_r_stb o; p_w_stb := e_w_stb e; p_w_data := p_w_data o |})
  | _ => acc
  end.

Definition sem_stmts (e : ein) (v : Z) (ss : list hstmt) (acc : Z * fout) : Z * fout :=
  fold_left (sem_stmt e v) ss acc.

Lemma elab_step_sem e start r f v l :
  elab e start r ((f, v) :: l) =
  let (r1, o) := sem_stmts e v (field_stmts (act_of f) start) (r, fout0) in
  let (rd, os) := elab e (start + f_w f) r1 l in (rd, o :: os).
Proof.
  cbn [elab]. unfold sem_stmts, field_stmts, act_of, shape_width. cbn [port_access port_shape].
  replace (start + f_w f - start) with (f_w f) by lia.
  destruct (f_a f); cbn [f_readable f_writable app fold_left sem_stmt p_r_stb p_w_stb p_w_data fout0];
    replace (start + f_w f - start) with (f_w f) by lia; reflexivity.
Qed.
