(* The write path of the multiplexer model: which chunk a bus write reaches, how long a chunk keeps its
   value, and what a register's w_data shows after the write to its last address. *)
From Coq Require Import ZArith List Bool Lia Arith.
From Soc Require Import Lib.Bits Model.Mux Model.MuxSpec.
From Soc Require Import Proofs.ShadowHash Proofs.MuxTable Proofs.MuxBasic.
Import ListNotations.
Open Scope Z_scope.

(* ------------------------------------------------------------------ positions in a trace *)

Lemma firstn_S_nth {A} (l : list A) : forall t x, nth_error l t = Some x ->
  firstn (S t) l = firstn t l ++ [x].
Proof.
  induction l as [|y l IH]; intros [|t] x H; simpl in H; try discriminate.
  - inversion H. reflexivity.
  - change (y :: firstn (S t) l = y :: (firstn t l ++ [x])). f_equal. apply IH; auto.
Qed.

Lemma st_at_S c is t it : nth_error is t = Some it -> st_at c is (S t) = next c (st_at c is t) it.
Proof. intros H. unfold st_at. rewrite (firstn_S_nth is t it H). apply state_after_app. Qed.

(* ------------------------------------------------------------------ layout *)

Lemma layout_from_In lo regs r : layout_from lo regs -> In r regs ->
  lo <= r_start r /\ r_start r < r_stop r /\ 0 <= r_width r.
Proof.
  revert lo. induction regs as [|x regs IH]; simpl; intros lo H Hr; [contradiction|].
  destruct H as (H1 & H2 & H3 & H4). destruct Hr as [->|Hr]; [lia|].
  specialize (IH _ H4 Hr). lia.
Qed.

(* an address lies in at most one register of a layout *)
Lemma layout_from_nth regs : forall lo k k' r r' a, layout_from lo regs ->
  nth_error regs k = Some r -> nth_error regs k' = Some r' ->
  r_start r <= a < r_stop r -> r_start r' <= a < r_stop r' -> k = k'.
Proof.
  induction regs as [|x regs IH]; intros lo k k' r r' a H Hk Hk' Ha Ha'.
  - destruct k; discriminate.
  - simpl in H. destruct H as (H1 & H2 & H3 & H4).
    destruct k as [|k], k' as [|k']; simpl in Hk, Hk'.
    + reflexivity.
    + inversion Hk; subst x. apply nth_error_In in Hk'.
      pose proof (layout_from_In _ _ _ H4 Hk'). lia.
    + inversion Hk'; subst x. apply nth_error_In in Hk.
      pose proof (layout_from_In _ _ _ H4 Hk). lia.
    + f_equal. eapply IH; eauto.
Qed.

Lemma wregs_In c r : In r (wregs c) <-> In r (c_regs c) /\ r_wr r = true.
Proof. unfold wregs. apply filter_In. Qed.

(* what a well-formed configuration says about its write shadow *)
Lemma wf_w c : wf_cfg c ->
  0 < c_dw c /\
  exists s, c_Sw c = 2 ^ s /\ 0 <= s /\
    forall r, In r (c_regs c) -> r_wr r = true -> ceil_log2 (reg_len r) <= s /\ 0 < reg_len r.
Proof.
  intros (Hdw & Hl & _ & (s & Es & Hs & Hsz)). split; auto.
  exists s. repeat split; auto.
  - apply Hsz. apply wregs_In; auto.
  - pose proof (layout_from_In _ _ _ Hl H). unfold reg_len. lia.
Qed.

(* ------------------------------------------------------------------ which chunk a bus write enables *)

(* chunk o is written exactly when the strobe is up and the address lies in a writable register
   that maps this address to o *)
Lemma wen_spec c i o : wf_cfg c ->
  (wen c i o = true <->
   i_wstb i = true /\
   exists r, In r (c_regs c) /\ r_wr r = true /\ r_start r <= i_addr i < r_stop r /\
             decode (c_Sw c) r (i_addr i) = o).
Proof.
  intros Hwf. destruct (wf_w c Hwf) as (_ & s & Es & Hs & Hsz).
  unfold wen. rewrite andb_true_iff, existsb_exists. split.
  - intros (Hw & r & Hr & H). apply andb_true_iff in H. destruct H as (Ht & He).
    apply Z.eqb_eq in He. apply touches_spec in Ht. destruct Ht as (a & Ha & Ed).
    apply wregs_In in Hr. destruct Hr as (Hr & Hwr). destruct (Hsz r Hr Hwr) as (Hc & Hlen).
    rewrite <- Ed, Es, encode_decode in He by auto. subst a.
    split; auto. exists r. auto.
  - intros (Hw & r & Hr & Hwr & Ha & Ed). split; auto.
    destruct (Hsz r Hr Hwr) as (Hc & Hlen).
    exists r. split; [apply wregs_In; auto|]. apply andb_true_iff. split.
    + apply touches_spec. exists (i_addr i). auto.
    + apply Z.eqb_eq. rewrite <- Ed, Es, encode_decode by auto. reflexivity.
Qed.

Lemma chunk_in_table c r a : In r (c_regs c) -> r_wr r = true -> r_start r <= a < r_stop r ->
  In (decode (c_Sw c) r a) (table (c_Sw c) (wregs c)).
Proof. intros Hr Hwr Ha. apply table_In. exists r, a. rewrite wregs_In. auto. Qed.

Lemma wdata_next_get c s i o : In o (table (c_Sw c) (wregs c)) ->
  get (s_wdata (next c s i)) o = wdata_next c s i o.
Proof. intros H. unfold next. cbn [s_wdata]. apply (get_map_table_in (wdata_next c s i)); auto. Qed.

(* a chunk keeps its value as long as no write enables it *)
Lemma chunk_hold c is o t1 d : In o (table (c_Sw c) (wregs c)) ->
  get (s_wdata (st_at c is t1)) o = d ->
  forall t2, (t1 <= t2)%nat -> (t2 <= length is)%nat ->
  (forall u i, (t1 <= u < t2)%nat -> nth_error is u = Some i -> wen c i o = false) ->
  get (s_wdata (st_at c is t2)) o = d.
Proof.
  intros Ho Hd t2 Hle. induction Hle as [|t2 Hle IH]; intros Hlen Hq; [exact Hd|].
  destruct (nth_error is t2) as [i|] eqn:E.
  - rewrite (st_at_S c is t2 i E), wdata_next_get by auto. unfold wdata_next.
    rewrite (Hq t2 i) by (auto; lia). apply IH; [lia|]. intros u i' Hu. apply Hq. lia.
  - apply nth_error_None in E. lia.
Qed.

(* ------------------------------------------------------------------ one chunk of a register *)

(* After the latest write to address start+j of writable register number k, the chunk of that address
   holds the written data until t+1, provided no other writable register is written in between.  The
   three ways a later write could reach the chunk: the same address (excluded: latest), another address
   of the same register (impossible: decode is injective within a register), an address of another
   writable register sharing the chunk (excluded by the premise). *)
Lemma chunk_after_write c is t k r j tjj d : wf_cfg c ->
  nth_error (c_regs c) k = Some r -> r_wr r = true ->
  (t < length is)%nat -> 0 <= j < reg_len r -> (tjj <= t)%nat ->
  (exists i, nth_error is tjj = Some i /\ i_wstb i = true /\ i_addr i = r_start r + j /\
             d = trunc (c_dw c) (i_wdata i)) ->
  (forall u i, (tjj < u <= t)%nat -> nth_error is u = Some i ->
               ~ (i_wstb i = true /\ i_addr i = r_start r + j)) ->
  (forall u, (tjj < u <= t)%nat -> ~ other_write c is k u) ->
  get (s_wdata (st_at c is (S t))) (decode (c_Sw c) r (r_start r + j)) = d.
Proof.
  intros Hwf Hk Hwr Ht Hj Hle (i0 & Hi0 & Hw0 & Ha0 & Hd) Hlatest Hother.
  pose proof (nth_error_In _ _ Hk) as Hr.
  destruct (wf_w c Hwf) as (_ & s & Es & Hs & Hsz).
  destruct (Hsz r Hr Hwr) as (Hc & Hlen).
  assert (Hin : r_start r <= r_start r + j < r_stop r) by (unfold reg_len in Hj; lia).
  set (o := decode (c_Sw c) r (r_start r + j)).
  assert (Ho : In o (table (c_Sw c) (wregs c))) by (apply chunk_in_table; auto).
  apply (chunk_hold c is o (S tjj) d Ho); [| lia | lia |].
  - rewrite (st_at_S c is tjj i0 Hi0), wdata_next_get by auto. unfold wdata_next.
    assert (E : wen c i0 o = true).
    { apply wen_spec; auto. split; auto. exists r. rewrite Ha0. auto. }
    rewrite E. auto.
  - intros u i Hu Hi. destruct (wen c i o) eqn:E; [exfalso|reflexivity].
    apply wen_spec in E; auto. destruct E as (Hw & r' & Hr' & Hwr' & Ha' & Ed).
    destruct (In_nth_error _ _ Hr') as (k' & Hk').
    destruct (Nat.eq_dec k' k) as [->|Hne].
    + rewrite Hk in Hk'. inversion Hk'; subst r'.
      apply (Hlatest u i); [lia|auto|]. split; auto.
      unfold o in Ed. rewrite Es in Ed. eapply decode_inj; eauto.
    + apply (Hother u); [lia|]. exists i, k', r'. auto 10.
Qed.

(* ------------------------------------------------------------------ w_data as an assembly of chunks *)

Definition wstep (c : cfg) (s : st) (r : reg) (acc a : Z) : Z :=
  let j := a - r_start r in
  let lo := j * c_dw c in
  let hi := Z.min (r_width r) ((j + 1) * c_dw c) in
  if hi <=? lo then acc
  else acc + trunc (hi - lo) (get (s_wdata s) (decode (c_Sw c) r a)) * 2 ^ lo.

Lemma elem_wdata_fold c s r : elem_wdata c s r = fold_left (wstep c s r) (addrs r) 0.
Proof. reflexivity. Qed.

Lemma fold_assemble c s r data : 0 < c_dw c -> forall n,
  (forall j, 0 <= j < Z.of_nat n -> j * c_dw c < r_width r ->
             get (s_wdata s) (decode (c_Sw c) r (r_start r + j)) = data j) ->
  fold_left (wstep c s r) (map (fun j => r_start r + Z.of_nat j) (seq 0 n)) 0 =
  assemble (c_dw c) (r_width r) data n.
Proof.
  intros Hdw. induction n as [|n IH]; intros Hdata; [reflexivity|].
  rewrite seq_S, map_app, fold_left_app. cbn [map fold_left plus assemble].
  rewrite IH by (intros j Hj; apply Hdata; lia).
  unfold wstep at 1. cbv zeta.
  replace (r_start r + Z.of_nat n - r_start r) with (Z.of_nat n) by ring.
  destruct (Z.min (r_width r) ((Z.of_nat n + 1) * c_dw c) <=? Z.of_nat n * c_dw c) eqn:E.
  - lia.
  - rewrite Hdata; [reflexivity|lia|].
    apply Z.leb_gt in E. replace ((Z.of_nat n + 1) * c_dw c) with (Z.of_nat n * c_dw c + c_dw c) in E by ring.
    lia.
Qed.

(* element.w_data only looks at the chunks that carry data bits *)
Lemma elem_wdata_assemble c s r data : 0 < c_dw c ->
  (forall j, 0 <= j < reg_len r -> j * c_dw c < r_width r ->
             get (s_wdata s) (decode (c_Sw c) r (r_start r + j)) = data j) ->
  elem_wdata c s r = assemble (c_dw c) (r_width r) data (Z.to_nat (reg_len r)).
Proof.
  intros Hdw Hdata. rewrite elem_wdata_fold. unfold addrs. apply fold_assemble; auto.
  intros j Hj. apply Hdata. lia.
Qed.

Lemma elem_wdata_ext c s s' r : 0 < c_dw c ->
  (forall a, r_start r <= a < r_stop r ->
             get (s_wdata s') (decode (c_Sw c) r a) = get (s_wdata s) (decode (c_Sw c) r a)) ->
  elem_wdata c s' r = elem_wdata c s r.
Proof.
  intros Hdw H.
  rewrite (elem_wdata_assemble c s r (fun j => get (s_wdata s) (decode (c_Sw c) r (r_start r + j)))); auto.
  apply elem_wdata_assemble; auto.
  intros j Hj _. apply H. unfold reg_len in Hj. lia.
Qed.

(* ------------------------------------------------------------------ the theorems *)

Theorem write_atomic c is t k r it (tj : Z -> nat) (dj : Z -> Z) : wf_cfg c ->
  nth_error (c_regs c) k = Some r -> r_wr r = true ->
  nth_error is t = Some it -> i_wstb it = true -> i_addr it = r_stop r - 1 ->
  (forall j, 0 <= j < reg_len r -> j * c_dw c < r_width r ->
     (tj j <= t)%nat /\
     (exists i, nth_error is (tj j) = Some i /\ i_wstb i = true /\ i_addr i = r_start r + j /\
                dj j = trunc (c_dw c) (i_wdata i)) /\
     (forall u i, (tj j < u <= t)%nat -> nth_error is u = Some i ->
                  ~ (i_wstb i = true /\ i_addr i = r_start r + j))) ->
  (forall j u, 0 <= j < reg_len r -> j * c_dw c < r_width r -> (tj j < u <= t)%nat ->
               ~ other_write c is k u) ->
  elem_wdata c (st_at c is (S t)) r = assemble (c_dw c) (r_width r) dj (Z.to_nat (reg_len r)).
Proof.
  intros Hwf Hk Hwr Ht _ _ Hlatest Hother.
  apply elem_wdata_assemble; [apply Hwf|].
  intros j Hj Hjw. destruct (Hlatest j Hj Hjw) as (Hle & Hex & Hno).
  apply (chunk_after_write c is t k r j (tj j) (dj j)); auto.
  - apply nth_error_Some. rewrite Ht. discriminate.
  - intros u Hu. apply (Hother j u); auto.
Qed.

(* the same on the port: w_data of register k one cycle after the last-address write *)
Lemma o_wdata_nth c s i k r : nth_error (c_regs c) k = Some r -> r_wr r = true ->
  nth_error (o_wdata (out c s i)) k = Some (elem_wdata c s r).
Proof. intros H Hwr. cbn [out o_wdata]. rewrite nth_error_map, H. cbn. rewrite Hwr. reflexivity. Qed.

(* a write that hits no writable register changes no chunk a writable register uses; any state *)
Theorem stray_write_inert c s i : wf_cfg c ->
  (i_wstb i = false \/
   forall r, In r (c_regs c) -> r_wr r = true -> ~ (r_start r <= i_addr i < r_stop r)) ->
  forall r, In r (c_regs c) -> r_wr r = true -> elem_wdata c (next c s i) r = elem_wdata c s r.
Proof.
  intros Hwf Hstray r Hr Hwr. apply elem_wdata_ext; [apply Hwf|].
  intros a Ha. rewrite wdata_next_get by (apply chunk_in_table; auto).
  unfold wdata_next. destruct (wen c i (decode (c_Sw c) r a)) eqn:E; [exfalso|reflexivity].
  apply wen_spec in E; auto. destruct E as (Hw & r' & Hr' & Hwr' & Ha' & _).
  destruct Hstray as [Hs|Hs]; [congruence|]. exact (Hs r' Hr' Hwr' Ha').
Qed.

(* ------------------------------------------------------------------ the shadow sizes do not show *)

Lemma s_wstb_after c is :
  s_wstb (state_after c (init c) is) =
  match rev is with
  | [] => map (fun _ => false) (c_regs c)
  | i :: _ => map (wstb_next i) (c_regs c)
  end.
Proof.
  destruct is as [|x is] using rev_ind; [reflexivity|].
  rewrite state_after_app, rev_app_distr. reflexivity.
Qed.

Theorem sharing_strobes c1 c2 : c_regs c1 = c_regs c2 -> forall is i,
  o_rstb (out c1 (state_after c1 (init c1) is) i) = o_rstb (out c2 (state_after c2 (init c2) is) i) /\
  o_wstb (out c1 (state_after c1 (init c1) is) i) = o_wstb (out c2 (state_after c2 (init c2) is) i).
Proof.
  intros Hregs is i. cbn [out o_rstb o_wstb]. rewrite !s_wstb_after, Hregs. auto.
Qed.

Lemma other_write_regs c1 c2 is k u : c_regs c1 = c_regs c2 ->
  other_write c1 is k u -> other_write c2 is k u.
Proof. unfold other_write. intros H. rewrite H. auto. Qed.

(* under the premises of write_atomic the delivered data is the same for two admissible size pairs *)
Theorem sharing_wdata c1 c2 is t k r it (tj : Z -> nat) (dj : Z -> Z) : wf_cfg c1 -> wf_cfg c2 ->
  c_dw c1 = c_dw c2 -> c_regs c1 = c_regs c2 ->
  nth_error (c_regs c1) k = Some r -> r_wr r = true ->
  nth_error is t = Some it -> i_wstb it = true -> i_addr it = r_stop r - 1 ->
  (forall j, 0 <= j < reg_len r -> j * c_dw c1 < r_width r ->
     (tj j <= t)%nat /\
     (exists i, nth_error is (tj j) = Some i /\ i_wstb i = true /\ i_addr i = r_start r + j /\
                dj j = trunc (c_dw c1) (i_wdata i)) /\
     (forall u i, (tj j < u <= t)%nat -> nth_error is u = Some i ->
                  ~ (i_wstb i = true /\ i_addr i = r_start r + j))) ->
  (forall j u, 0 <= j < reg_len r -> j * c_dw c1 < r_width r -> (tj j < u <= t)%nat ->
               ~ other_write c1 is k u) ->
  elem_wdata c1 (st_at c1 is (S t)) r = elem_wdata c2 (st_at c2 is (S t)) r.
Proof.
  intros Hwf1 Hwf2 Hdw Hregs Hk Hwr Ht Hw Ha Hlatest Hother.
  rewrite (write_atomic c1 is t k r it tj dj); auto.
  rewrite (write_atomic c2 is t k r it tj dj); auto.
  - rewrite Hdw. reflexivity.
  - rewrite <- Hregs. auto.
  - rewrite <- Hdw. auto.
  - rewrite <- Hdw. intros j u Hj Hjw Hu Ho. apply (Hother j u Hj Hjw Hu).
    apply (other_write_regs c2 c1); auto.
Qed.

(* ------------------------------------------------------------------ a stray write is an idle cycle *)

Definition no_write (i : inp) : inp :=
  {| i_addr := i_addr i; i_rstb := i_rstb i; i_wstb := false; i_wdata := i_wdata i; i_rvals := i_rvals i |}.

(* A write strobe at an address outside every writable register leaves the machine in exactly the state
   the same cycle without the strobe would: no chunk, no strobe register, nothing on the read path
   differs, now or later. *)
Theorem stray_write_is_idle c s i : wf_cfg c ->
  (forall r, In r (c_regs c) -> r_wr r = true -> ~ (r_start r <= i_addr i < r_stop r)) ->
  next c s i = next c s (no_write i).
Proof.
  intros Hwf Hstray. unfold next. f_equal.
  - apply map_ext_in. intros o Ho. f_equal. unfold wdata_next.
    assert (E : forall i', wen c (no_write i') o = false) by (intros; reflexivity).
    rewrite E. destruct (wen c i o) eqn:Ew; [exfalso|reflexivity].
    apply wen_spec in Ew; auto. destruct Ew as (_ & r & Hr & Hwr & Ha & _).
    exact (Hstray r Hr Hwr Ha).
  - apply map_ext_in. intros r Hr. unfold wstb_next. cbn [no_write i_wstb i_addr].
    destruct (r_wr r) eqn:Hwr; [|reflexivity].
    rewrite andb_false_r. cbn [andb].
    destruct (i_wstb i); [|reflexivity]. cbn [andb].
    apply Z.eqb_neq. intros Ea.
    destruct Hwf as (_ & Hl & _). pose proof (layout_from_In _ _ _ Hl Hr).
    apply (Hstray r Hr Hwr). lia.
Qed.

(* the write inputs never reach the read path or the read strobes *)
Lemma write_inputs_not_on_read_path c s i w d :
  let i' := {| i_addr := i_addr i; i_rstb := i_rstb i; i_wstb := w; i_wdata := d; i_rvals := i_rvals i |} in
  s_rdata (next c s i') = s_rdata (next c s i) /\ s_ren (next c s i') = s_ren (next c s i) /\
  o_rstb (out c s i') = o_rstb (out c s i).
Proof. repeat split; reflexivity. Qed.
