(* What resources()/windows() report (C02 T1-T4): exactly the range map's content, ascending and
   disjoint, and each successful add_resource/add_window adds exactly the computed entry. *)
From Coq Require Import ZArith List Bool Lia ZifyBool Arith.
From Soc Require Import Lib.Res Lib.PyList Model.MemoryMap Model.MemSpec.
From Soc Require Import Proofs.RangeMap Proofs.MemArith Proofs.MemNames Proofs.MemAlloc.
Import ListNotations.
Open Scope Z_scope.

Local Opaque Z.pow Z.shiftl Z.div Z.modulo.

(* ------------------------------------------------------------------ T1 *)

Lemma chain_ascending lo l : chain lo l -> ascending lo (map (fun x => (e_start x, e_stop x)) l).
Proof.
  revert lo; induction l as [|x l IH]; cbn [chain map ascending]; intros lo H; [exact I|].
  destruct H as (H1 & H2 & H3). auto.
Qed.

Lemma disjoint_in_bounds m : wf_map m ->
  ascending 0 (map (fun x => (e_start x, e_stop x)) (m_ranges m)) /\
  (forall x, In x (m_ranges m) -> e_stop x <= 2 ^ m_aw m).
Proof.
  intros Hwf. split; [apply chain_ascending, (wf_chain _ Hwf)|].
  intros x Hx. apply (wf_entries _ Hwf x Hx).
Qed.

(* ------------------------------------------------------------------ T2 *)

Lemma reports_exact m : wf_map m ->
  map (fun '(id, _, s, e) => (AR id, s, e, 1)) (resources m) =
    map (fun x => (e_asg x, e_start x, e_stop x, e_step x))
        (filter (fun x => match e_asg x with AR _ => true | _ => false end) (m_ranges m)) /\
  map (fun '(id, _, s, e, r) => (AW id, s, e, r)) (windows m) =
    map (fun x => (e_asg x, e_start x, e_stop x, e_step x))
        (filter (fun x => match e_asg x with AW _ => true | _ => false end) (m_ranges m)).
Proof.
  intros Hwf. pose proof (wf_entries _ Hwf) as Hent. unfold resources, windows.
  revert Hent. generalize (m_ranges m) as l. induction l as [|x l IH]; intros Hent.
  - split; reflexivity.
  - destruct IH as (IH1 & IH2); [intros y Hy; apply Hent; right; exact Hy|].
    pose proof (Hent x (or_introl eq_refl)) as (_ & Hx).
    cbn [flat_map filter]. destruct (e_asg x) as [id|id] eqn:Ea.
    + destruct Hx as (Hst & r & Hr & _). rewrite Hr. cbn [app map]. split; [|exact IH2].
      rewrite Ea, Hst. f_equal. exact IH1.
    + destruct Hx as (_ & [wn c] & Hr & _). rewrite Hr. cbn [app map]. split; [exact IH1|].
      rewrite Ea. f_equal. exact IH2.
Qed.

Lemma ascending_weaken lo lo' l : lo' <= lo -> ascending lo l -> ascending lo' l.
Proof.
  destruct l as [|[s e] l]; cbn [ascending]; [auto|].
  intros H (H1 & H2 & H3). repeat split; auto. lia.
Qed.

Lemma reports_ascending m : wf_map m ->
  ascending 0 (map (fun '(_, _, s, e) => (s, e)) (resources m)) /\
  ascending 0 (map (fun '(_, _, s, e, _) => (s, e)) (windows m)).
Proof.
  intros Hwf. pose proof (wf_chain _ Hwf) as Hch. unfold resources, windows.
  revert Hch. generalize 0 as lo. generalize (m_ranges m) as l.
  induction l as [|x l IH]; intros lo Hch.
  - split; exact I.
  - destruct Hch as (H1 & H2 & H3). destruct (IH _ H3) as (IH1 & IH2).
    assert (IH1' := ascending_weaken (e_stop x) lo _ ltac:(lia) IH1).
    assert (IH2' := ascending_weaken (e_stop x) lo _ ltac:(lia) IH2).
    cbn [flat_map]. destruct (e_asg x) as [id|id].
    + split; [|exact IH2'].
      destruct (find_res id (m_ress m)); cbn [app map ascending]; auto.
    + split; [exact IH1'|].
      destruct (find_win id (m_wins m)) as [[wn c]|]; cbn [app map ascending]; auto.
Qed.

(* ------------------------------------------------------------------ T3 *)

Lemma add_resource_spec m id comp nm size addr al m' s e :
  wf_map m -> add_resource m id comp nm size addr al = Ok (m', (s, e)) ->
  exists n sz A,
    mk_name nm = Ok n /\ size = VInt sz /\ 0 <= sz /\
    A = match al with VInt a => Z.max a (m_al m) | _ => m_al m end /\
    least_multiple_ge (2 ^ A) (Z.max sz 1) (e - s) /\
    (forall a, addr = VInt a -> s = a) /\
    (addr = VNone -> least_multiple_ge (2 ^ A) (m_next m) s) /\
    m_next m' = e /\
    (forall t, In t (resources m') <-> t = (id, n, s, e) \/ In t (resources m)) /\
    windows m' = windows m /\
    m_frozen m' = m_frozen m /\ m_aw m' = m_aw m /\ m_dw m' = m_dw m /\ m_al m' = m_al m.
Proof.
  intros Hwf H.
  apply add_resource_inv in H as (n & rs & Hfr & Hcomp & Hhas & Hn & Hav & Hcar & Hins & ->).
  pose proof (res_alignment_ge m al) as HA.
  assert (HA0 : 0 <= res_alignment m al) by (pose proof (wf_al _ Hwf); lia).
  destruct (insert_after_car _ _ _ _ _ _ 1 (AR id) Hwf HA Hcar) as (rs' & Hins' & _ & Hin).
  rewrite Hins in Hins'. injection Hins' as <-.
  apply rm_insert_split in Hins as (l1 & l2 & Hl & Hrs).
  apply car_ok in Hcar as (sz & -> & Hsz & He & Haddr & _).
  exists n, sz, (res_alignment m al).
  split; [exact Hn|]. split; [reflexivity|]. split; [exact Hsz|]. split; [reflexivity|].
  split; [replace (e - s) with (align_up (Z.max sz 1) (res_alignment m al)) by lia;
          apply align_up_spec, HA0|].
  split; [intros a ->; destruct Haddr as (-> & _); reflexivity|].
  split; [intros ->; rewrite Haddr; apply align_up_spec, HA0|].
  split; [reflexivity|].
  split; [|split; [|repeat split]].
  - intros t. unfold resources. msimpl. rewrite !in_flat_map. split.
    + intros (x & Hx & Ht). apply Hin in Hx as [->|Hx].
      * left. msimpl. rewrite find_res_app, (has_res_find _ _ Hhas) in Ht. msimpl.
        rewrite Z.eqb_refl in Ht. msimpl. destruct Ht as [<-|[]]. reflexivity.
      * right. exists x. split; [exact Hx|].
        pose proof (wf_entries _ Hwf x Hx) as (_ & Hok).
        destruct (e_asg x) as [id'|id']; [|exact Ht].
        destruct Hok as (_ & r & Hr & _). rewrite find_res_app, Hr in Ht. rewrite Hr. exact Ht.
    + intros [->|(x & Hx & Ht)].
      * eexists. split; [apply Hin; left; reflexivity|]. msimpl.
        rewrite find_res_app, (has_res_find _ _ Hhas). msimpl. rewrite Z.eqb_refl. msimpl.
        left. reflexivity.
      * exists x. split; [apply Hin; right; exact Hx|].
        destruct (e_asg x) as [id'|id']; [|exact Ht].
        rewrite find_res_app. destruct (find_res id' (m_ress m)); [exact Ht|destruct Ht].
  - unfold windows. msimpl. rewrite Hrs, Hl, !flat_map_app. cbn [flat_map]. msimpl. reflexivity.
Qed.

(* ------------------------------------------------------------------ T4 *)

Lemma add_window_spec m wid wm nm addr sparse m' s e r :
  wf_map m -> wf_map wm -> add_window m wid wm nm addr sparse = Ok (m', (s, e, r)) ->
  exists A n,
    match nm with None => n = None | Some rn => exists x, mk_name rn = Ok x /\ n = Some x end /\
    r = (if match sparse with Some true => true | _ => false end then 1 else m_dw m / m_dw wm) /\
    1 <= r /\ A = Z.max (m_al m) (m_aw wm / r) /\
    least_multiple_ge (2 ^ A) (Z.max (2 ^ m_aw wm / r) 1) (e - s) /\
    (forall a, addr = VInt a -> s = a) /\
    (addr = VNone -> least_multiple_ge (2 ^ A) (m_next m) s) /\
    m_next m' = e /\
    (forall t, In t (windows m') <-> t = (wid, n, s, e, r) \/ In t (windows m)) /\
    resources m' = resources m /\
    m_frozen m' = m_frozen m /\ m_aw m' = m_aw m /\ m_dw m' = m_dw m /\ m_al m' = m_al m.
Proof.
  intros Hwf Hwm H.
  apply add_window_inv in H as (n & rs & Hfr & Hhas & Hdwle & Hn & Hav & Hr & Hcar & Hins & ->).
  pose proof (win_alignment_ge m wm r) as HA.
  assert (HA0 : 0 <= win_alignment m wm r) by (pose proof (wf_al _ Hwf); lia).
  pose proof (win_ratio_ge1 m wm sparse (wf_dw _ Hwm) Hdwle) as Hr1. rewrite <- Hr in Hr1.
  destruct (insert_after_car _ _ _ _ _ _ r (AW wid) Hwf HA Hcar) as (rs' & Hins' & _ & Hin).
  rewrite Hins in Hins'. injection Hins' as <-.
  apply rm_insert_split in Hins as (l1 & l2 & Hl & Hrs).
  apply car_ok in Hcar as (sz & Hszeq & Hsz & He & Haddr & _). injection Hszeq as <-.
  exists (win_alignment m wm r), n.
  split; [exact Hn|]. split; [exact Hr|]. split; [exact Hr1|]. split; [reflexivity|].
  split; [replace (e - s) with (align_up (Z.max (2 ^ m_aw wm / r) 1) (win_alignment m wm r)) by lia;
          apply align_up_spec, HA0|].
  split; [intros a ->; destruct Haddr as (-> & _); reflexivity|].
  split; [intros ->; rewrite Haddr; apply align_up_spec, HA0|].
  split; [reflexivity|].
  split; [|split; [|repeat split]].
  - intros t. unfold windows. msimpl. rewrite !in_flat_map. split.
    + intros (x & Hx & Ht). apply Hin in Hx as [->|Hx].
      * left. msimpl. rewrite find_win_app, (has_win_find _ _ Hhas) in Ht. msimpl.
        rewrite Z.eqb_refl in Ht. msimpl. destruct Ht as [<-|[]]. reflexivity.
      * right. exists x. split; [exact Hx|].
        pose proof (wf_entries _ Hwf x Hx) as (_ & Hok).
        destruct (e_asg x) as [id'|id']; [exact Ht|].
        destruct Hok as (_ & wc & Hw & _). rewrite find_win_app, Hw in Ht. rewrite Hw. exact Ht.
    + intros [->|(x & Hx & Ht)].
      * eexists. split; [apply Hin; left; reflexivity|]. msimpl.
        rewrite find_win_app, (has_win_find _ _ Hhas). msimpl. rewrite Z.eqb_refl. msimpl.
        left. reflexivity.
      * exists x. split; [apply Hin; right; exact Hx|].
        destruct (e_asg x) as [id'|id']; [exact Ht|].
        rewrite find_win_app. destruct (find_win id' (m_wins m)); [exact Ht|destruct Ht].
  - unfold resources. msimpl. rewrite Hrs, Hl, !flat_map_app. cbn [flat_map]. msimpl. reflexivity.
Qed.

(* ratio 1 (dense window of the same data width, or sparse): an implicitly placed window starts at a
   multiple of its own size and spans at least that size *)
Lemma window_ratio1_aligned m wid wm nm addr sparse m' s e r :
  wf_map m -> wf_map wm -> add_window m wid wm nm addr sparse = Ok (m', (s, e, r)) ->
  r = 1 -> addr = VNone -> s mod 2 ^ m_aw wm = 0 /\ 2 ^ m_aw wm <= e - s.
Proof.
  intros Hwf Hwm H Hr1 Haddr.
  destruct (add_window_spec _ _ _ _ _ _ _ _ _ _ Hwf Hwm H)
    as (A & n & _ & _ & _ & HA & (Hm & Hge & _) & _ & Hs & _).
  subst r addr. rewrite Z.div_1_r in *. specialize (Hs eq_refl). destruct Hs as (Hs & _).
  pose proof (wf_aw _ Hwm). pose proof (wf_al _ Hwf).
  split; [apply (mod_pow2_le _ A); [lia|exact Hs]|lia].
Qed.
