(* C01: from routing to the cycle-exact machine of a CSR tree.  An access whose address selects nothing
   (`creach = None`), like a cycle without strobes, raises no register's r_stb in that cycle, no register's
   w_stb in the next, and leaves the bus read data at zero in the next. *)
From Coq Require Import ZArith List Bool Lia ZifyBool Arith.
From Soc Require Import Lib.Bits Model.Hierarchy Model.MuxSpec.
From Soc Require Lib.CsrPattern Model.Mux Model.CsrDecoder Proofs.MuxTable Proofs.MuxRead.
Import ListNotations.
Open Scope Z_scope.

Local Opaque Z.pow.

Section ChwInd.
  Variable P : chw -> Prop.
  Hypothesis Hm : forall c ids, P (HMux c ids).
  Hypothesis Hd : forall aw subs, Forall (fun p : CsrDecoder.sub * chw => P (snd p)) subs -> P (HDec aw subs).
  Fixpoint chw_ind' (h : chw) : P h :=
    match h with
    | HMux c ids => Hm c ids
    | HDec aw subs =>
        Hd aw subs
          ((fix go (l : list (CsrDecoder.sub * chw)) : Forall (fun p : CsrDecoder.sub * chw => P (snd p)) l :=
              match l with
              | [] => Forall_nil _
              | (w, ch) :: l' => @Forall_cons _ (fun p : CsrDecoder.sub * chw => P (snd p)) (w, ch) l'
                                   (chw_ind' ch) (go l')
              end) subs)
    end.
End ChwInd.

(* every multiplexer of the tree is a well-formed configuration (C04/C05's premise) with one id per register *)
Fixpoint hw_wf (h : chw) : Prop :=
  match h with
  | HMux c ids => wf_cfg c /\ length ids = length (Mux.c_regs c)
  | HDec _ subs =>
      (fix go (l : list (CsrDecoder.sub * chw)) : Prop :=
         match l with [] => True | (_, ch) :: l' => hw_wf ch /\ go l' end) subs
  end.

Lemma hw_wf_dec aw subs : hw_wf (HDec aw subs) <-> Forall (fun p : CsrDecoder.sub * chw => hw_wf (snd p)) subs.
Proof.
  cbn [hw_wf]. induction subs as [|[w ch] l IH].
  - split; auto.
  - split.
    + intros [H1 H2]. constructor; [exact H1|apply IH; exact H2].
    + intros H. inversion H as [|? ? H1 H2]; subst. split; [exact H1|apply IH; exact H2].
Qed.

(* nothing happens at the registers, and nothing comes back *)
Definition quiet_after (h : chw) (s : cst) (rv : list Z) (b : CsrDecoder.bus) : Prop :=
  (forall lo, In lo (c_leaves h s rv b) -> lo_rstb lo = false) /\
  (forall rv' b' lo, In lo (c_leaves h (c_next h s rv b) rv' b') -> lo_wstb lo = false) /\
  c_rdata h (c_next h s rv b) = 0.

Lemma mux_leaves_In ids : forall rs ws wd lo, In lo (mux_leaves ids rs ws wd) ->
  In (lo_rstb lo) rs /\ In (lo_wstb lo) ws.
Proof.
  induction ids as [|id ids IH]; intros rs ws wd lo H; [contradiction|].
  destruct rs as [|r rs]; [contradiction|]. destruct ws as [|w ws]; [contradiction|].
  destruct wd as [|d wd]; [contradiction|]. cbn [mux_leaves] in H. destruct H as [<-|H].
  - cbn. auto.
  - destruct (IH _ _ _ _ H). cbn [In]. auto.
Qed.

Lemma mux_reach_none regs : forall ids a, length ids = length regs -> mux_reach regs ids a = None ->
  forall r, In r regs -> ~ (Mux.r_start r <= a < Mux.r_stop r).
Proof.
  induction regs as [|r0 regs IH]; intros ids a Hlen H r Hin; [contradiction|].
  destruct ids as [|id ids]; [discriminate|]. cbn [mux_reach] in H.
  destruct (existsb (Z.eqb a) (Mux.addrs r0)) eqn:E; [discriminate|].
  destruct Hin as [<-|Hin].
  - intros Hr. apply MuxTable.addrs_In in Hr.
    assert (existsb (Z.eqb a) (Mux.addrs r0) = true).
    { apply existsb_exists. exists a. split; [exact Hr|apply Z.eqb_refl]. }
    congruence.
  - apply (IH ids a); auto.
Qed.

(* a multiplexer none of whose registers is addressed, or that sees no strobe *)
Lemma mux_quiet c ids ms rv b : wf_cfg c ->
  ((CsrDecoder.r_stb b = false /\ CsrDecoder.w_stb b = false) \/
   forall r, In r (Mux.c_regs c) -> ~ (Mux.r_start r <= CsrDecoder.addr b < Mux.r_stop r)) ->
  quiet_after (HMux c ids) (SMux ms) rv b.
Proof.
  intros Hwf Hq. pose proof Hwf as (_ & Hl & _).
  assert (Hlay : forall r, In r (Mux.c_regs c) -> Mux.r_start r < Mux.r_stop r).
  { intros r Hr. destruct (MuxRead.layout_from_In _ _ _ Hl Hr) as (_ & H & _). exact H. }
  split; [|split].
  - intros lo Hin. cbn [c_leaves] in Hin. apply mux_leaves_In in Hin as [Hin _].
    cbn [Mux.out Mux.o_rstb] in Hin. apply in_map_iff in Hin as (r & Hr & Hin).
    destruct (lo_rstb lo); [exfalso|reflexivity]. unfold Mux.elem_rstb in Hr. cbn [mux_inp Mux.i_rstb Mux.i_addr] in Hr.
    apply andb_true_iff in Hr as [Hr Ha]. apply andb_true_iff in Hr as [_ Hs]. apply Z.eqb_eq in Ha.
    destruct Hq as [[Hs' _]|Hq]; [congruence|]. apply (Hq r Hin). pose proof (Hlay r Hin). lia.
  - intros rv' b' lo Hin. cbn [c_next c_leaves] in Hin. apply mux_leaves_In in Hin as [_ Hin].
    cbn [Mux.out Mux.o_wstb Mux.next Mux.s_wstb] in Hin. apply in_map_iff in Hin as (r & Hr & Hin).
    destruct (lo_wstb lo); [exfalso|reflexivity]. unfold Mux.wstb_next in Hr. cbn [mux_inp Mux.i_wstb Mux.i_addr] in Hr.
    apply andb_true_iff in Hr as [Hr Ha]. apply andb_true_iff in Hr as [_ Hs]. apply Z.eqb_eq in Ha.
    destruct Hq as [[_ Hs']|Hq]; [congruence|]. apply (Hq r Hin). pose proof (Hlay r Hin). lia.
  - cbn [c_next c_rdata]. apply MuxRead.bus_rdata_idle; [exact Hwf|].
    cbn [mux_inp Mux.i_rstb Mux.i_addr]. destruct Hq as [[Hs _]|Hq]; [left; exact Hs|right].
    intros r Hr _. exact (Hq r Hr).
Qed.

Lemma fold_lor_zeros l : (forall x, In x l -> x = 0) -> CsrDecoder.dec_up l = 0.
Proof.
  unfold CsrDecoder.dec_up. induction l as [|x l IH]; cbn [fold_left]; intros H; [reflexivity|].
  rewrite (H x) by (left; reflexivity). cbn. apply IH. intros y Hy. apply H. right. exact Hy.
Qed.

(* the three loops of a decoder, as top-level functions *)
Fixpoint dec_leaves aw (found : bool) (subs : list (CsrDecoder.sub * chw)) (ss : list cst) rv b : list lobs :=
  match subs, ss with
  | (w, ch) :: subs', s1 :: ss' =>
      let m := CsrPattern.pmatch (CsrDecoder.sub_pattern aw w) (CsrDecoder.addr b) in
      c_leaves ch s1 rv (CsrDecoder.sub_drive aw w (negb found && m) b) ++ dec_leaves aw (found || m) subs' ss' rv b
  | _, _ => []
  end.
Fixpoint dec_next aw (found : bool) (subs : list (CsrDecoder.sub * chw)) (ss : list cst) rv b : list cst :=
  match subs, ss with
  | (w, ch) :: subs', s1 :: ss' =>
      let m := CsrPattern.pmatch (CsrDecoder.sub_pattern aw w) (CsrDecoder.addr b) in
      c_next ch s1 rv (CsrDecoder.sub_drive aw w (negb found && m) b) :: dec_next aw (found || m) subs' ss' rv b
  | _, _ => []
  end.
Fixpoint dec_rdatas (subs : list (CsrDecoder.sub * chw)) (ss : list cst) : list Z :=
  match subs, ss with
  | (_, ch) :: subs', s1 :: ss' => c_rdata ch s1 :: dec_rdatas subs' ss'
  | _, _ => []
  end.
Fixpoint dec_creach aw (subs : list (CsrDecoder.sub * chw)) (a : Z) : option (Z * Z) :=
  match subs with
  | [] => None
  | (w, ch) :: subs' =>
      if CsrPattern.pmatch (CsrDecoder.sub_pattern aw w) a
      then creach ch (trunc (Z.min (CsrDecoder.s_aw w) aw) a) else dec_creach aw subs' a
  end.

Lemma c_leaves_dec aw subs ss rv b : c_leaves (HDec aw subs) (SDec ss) rv b = dec_leaves aw false subs ss rv b.
Proof.
  cbn [c_leaves]. generalize false as found. revert ss.
  induction subs as [|[w ch] subs IH]; intros ss found; [reflexivity|].
  destruct ss as [|s1 ss]; [reflexivity|]. cbn [dec_leaves]. f_equal; try apply IH.
Qed.
Lemma c_next_dec aw subs ss rv b : c_next (HDec aw subs) (SDec ss) rv b = SDec (dec_next aw false subs ss rv b).
Proof.
  cbn [c_next].
  match goal with |- SDec ?x = _ => assert (E : x = dec_next aw false subs ss rv b) end.
  { generalize false as found. revert ss.
    induction subs as [|[w ch] subs IH]; intros ss found; [reflexivity|].
    destruct ss as [|s1 ss]; [reflexivity|]. cbn [dec_next]. f_equal; try apply IH. }
  rewrite E. reflexivity.
Qed.
Lemma c_rdata_dec aw subs ss : c_rdata (HDec aw subs) (SDec ss) = CsrDecoder.dec_up (dec_rdatas subs ss).
Proof.
  cbn [c_rdata].
  match goal with |- CsrDecoder.dec_up ?x = _ => assert (E : x = dec_rdatas subs ss) end.
  { revert ss. induction subs as [|[w ch] subs IH]; intros ss; [reflexivity|].
    destruct ss as [|s1 ss]; [reflexivity|]. cbn [dec_rdatas]. f_equal; try apply IH. }
  rewrite E. reflexivity.
Qed.
Lemma creach_dec' aw subs a : creach (HDec aw subs) a = dec_creach aw subs a.
Proof.
  cbn [creach]. induction subs as [|[w ch] subs IH]; [reflexivity|].
  cbn [dec_creach]. rewrite <- IH. reflexivity.
Qed.

(* the loops, when every child they reach is quiet *)
Lemma dec_loops_quiet aw rv b subs : forall found ss,
  (forall w ch s1 en, In (w, ch) subs ->
     (en = false \/ (CsrPattern.pmatch (CsrDecoder.sub_pattern aw w) (CsrDecoder.addr b) = true /\
                     creach ch (trunc (Z.min (CsrDecoder.s_aw w) aw) (CsrDecoder.addr b)) = None)) ->
     quiet_after ch s1 rv (CsrDecoder.sub_drive aw w en b)) ->
  (found = true \/ dec_creach aw subs (CsrDecoder.addr b) = None) ->
  (forall lo, In lo (dec_leaves aw found subs ss rv b) -> lo_rstb lo = false) /\
  (forall rv' b' found' lo, In lo (dec_leaves aw found' subs (dec_next aw found subs ss rv b) rv' b') -> lo_wstb lo = false) /\
  (forall x, In x (dec_rdatas subs (dec_next aw found subs ss rv b)) -> x = 0).
Proof.
  induction subs as [|[w ch] subs IH]; intros found ss Hq Hf.
  - cbn. repeat split; intros; contradiction.
  - destruct ss as [|s1 ss]; [cbn; repeat split; intros; contradiction|].
    set (m := CsrPattern.pmatch (CsrDecoder.sub_pattern aw w) (CsrDecoder.addr b)).
    assert (Hhead : quiet_after ch s1 rv (CsrDecoder.sub_drive aw w (negb found && m) b)).
    { apply Hq; [left; reflexivity|]. destruct found; [left; reflexivity|]. cbn [negb andb].
      destruct m eqn:Em; [right|left; reflexivity]. split; [exact Em|].
      destruct Hf as [Hf|Hf]; [discriminate|]. cbn [dec_creach] in Hf. fold m in Hf. rewrite Em in Hf. exact Hf. }
    assert (Htail : found || m = true \/ dec_creach aw subs (CsrDecoder.addr b) = None).
    { destruct found; [left; reflexivity|]. destruct m eqn:Em; [left; reflexivity|right].
      destruct Hf as [Hf|Hf]; [discriminate|]. cbn [dec_creach] in Hf. fold m in Hf. rewrite Em in Hf. exact Hf. }
    assert (Hq' : forall w0 ch0 s0 en, In (w0, ch0) subs ->
       (en = false \/ (CsrPattern.pmatch (CsrDecoder.sub_pattern aw w0) (CsrDecoder.addr b) = true /\
                       creach ch0 (trunc (Z.min (CsrDecoder.s_aw w0) aw) (CsrDecoder.addr b)) = None)) ->
       quiet_after ch0 s0 rv (CsrDecoder.sub_drive aw w0 en b)).
    { intros w0 ch0 s0 en Hin. apply Hq. right. exact Hin. }
    destruct (IH (found || m) ss Hq' Htail) as (T1 & T2 & T3).
    destruct Hhead as (H1 & H2 & H3).
    cbn [dec_leaves dec_next dec_rdatas]. fold m. split; [|split].
    + intros lo Hin. apply in_app_or in Hin as [Hin|Hin]; [apply H1; exact Hin|apply T1; exact Hin].
    + intros rv' b' found' lo Hin. apply in_app_or in Hin as [Hin|Hin]; [eapply H2; exact Hin|eapply T2; exact Hin].
    + intros x [<-|Hin]; [exact H3|apply T3; exact Hin].
Qed.

(* a state of the wrong shape: nothing is modelled to happen *)
Lemma shape_mismatch_quiet h s rv b :
  match h, s with HMux _ _, SDec _ | HDec _ _, SMux _ => True | _, _ => False end -> quiet_after h s rv b.
Proof.
  destruct h, s; intros H; try contradiction; (split; [|split]); cbn; intros; try contradiction; reflexivity.
Qed.

(* no strobe in: nothing happens *)
Lemma idle_quiet h : hw_wf h -> forall s rv b,
  CsrDecoder.r_stb b = false -> CsrDecoder.w_stb b = false -> quiet_after h s rv b.
Proof.
  induction h as [c ids|aw subs IH] using chw_ind'; intros Hwf s rv b Hr Hw.
  - destruct s as [ms|ss]; [|apply shape_mismatch_quiet; exact I].
    apply mux_quiet; [exact (proj1 Hwf)|left; auto].
  - destruct s as [ms|ss]; [apply shape_mismatch_quiet; exact I|].
    apply hw_wf_dec in Hwf. rewrite Forall_forall in IH, Hwf.
    assert (Hq : forall w ch s1 en, In (w, ch) subs -> quiet_after ch s1 rv (CsrDecoder.sub_drive aw w en b)).
    { intros w ch s1 en Hin. apply (IH _ Hin (Hwf _ Hin)); cbn; [rewrite Hr|rewrite Hw]; apply andb_false_r. }
    destruct (dec_loops_quiet aw rv b subs true ss (fun w ch s1 en Hin _ => Hq w ch s1 en Hin) (or_introl eq_refl))
      as (T1 & T2 & T3).
    (* the flag only matters through the enables, which are all quiet here *)
    assert (G : forall found, (forall lo, In lo (dec_leaves aw found subs ss rv b) -> lo_rstb lo = false) /\
      (forall rv' b' found' lo, In lo (dec_leaves aw found' subs (dec_next aw found subs ss rv b) rv' b') -> lo_wstb lo = false) /\
      (forall x, In x (dec_rdatas subs (dec_next aw found subs ss rv b)) -> x = 0)).
    { clear T1 T2 T3. revert ss. induction subs as [|[w ch] subs IHs]; intros ss found.
      - cbn. repeat split; intros; contradiction.
      - destruct ss as [|s1 ss]; [cbn; repeat split; intros; contradiction|].
        assert (Hq' : forall w0 ch0 s0 en, In (w0, ch0) subs -> quiet_after ch0 s0 rv (CsrDecoder.sub_drive aw w0 en b)).
        { intros w0 ch0 s0 en Hin. apply Hq. right. exact Hin. }
        assert (IH' : forall x, In x subs -> hw_wf (snd x) -> forall s rv b, CsrDecoder.r_stb b = false ->
                        CsrDecoder.w_stb b = false -> quiet_after (snd x) s rv b).
        { intros x Hx. apply IH. right. exact Hx. }
        assert (Hwf' : forall x, In x subs -> hw_wf (snd x)). { intros x Hx. apply Hwf. right. exact Hx. }
        destruct (IHs IH' Hwf' Hq' ss (found || CsrPattern.pmatch (CsrDecoder.sub_pattern aw w) (CsrDecoder.addr b)))
          as (U1 & U2 & U3).
        destruct (Hq w ch s1 (negb found && CsrPattern.pmatch (CsrDecoder.sub_pattern aw w) (CsrDecoder.addr b))
                     (or_introl eq_refl)) as (H1 & H2 & H3).
        cbn [dec_leaves dec_next dec_rdatas]. split; [|split].
        + intros lo Hin. apply in_app_or in Hin as [Hin|Hin]; [apply H1; exact Hin|apply U1; exact Hin].
        + intros rv' b' found' lo Hin. apply in_app_or in Hin as [Hin|Hin]; [eapply H2; exact Hin|eapply U2; exact Hin].
        + intros x [<-|Hin]; [exact H3|apply U3; exact Hin]. }
    destruct (G false) as (G1 & G2 & G3).
    split; [|split].
    + rewrite c_leaves_dec. exact G1.
    + intros rv' b' lo. rewrite c_next_dec, c_leaves_dec. apply G2.
    + rewrite c_next_dec, c_rdata_dec. apply fold_lor_zeros. exact G3.
Qed.

(* an address that selects nothing: nothing happens *)
Theorem unreached_quiet h : hw_wf h -> forall s rv b,
  creach h (CsrDecoder.addr b) = None -> quiet_after h s rv b.
Proof.
  induction h as [c ids|aw subs IH] using chw_ind'; intros Hwf s rv b Hc.
  - destruct s as [ms|ss]; [|apply shape_mismatch_quiet; exact I].
    destruct Hwf as [Hwf Hlen]. apply mux_quiet; [exact Hwf|right].
    cbn [creach] in Hc. exact (mux_reach_none _ _ _ Hlen Hc).
  - destruct s as [ms|ss]; [apply shape_mismatch_quiet; exact I|].
    pose proof Hwf as Hwf0. apply hw_wf_dec in Hwf. rewrite Forall_forall in IH, Hwf.
    rewrite creach_dec' in Hc.
    assert (Hq : forall w ch s1 en, In (w, ch) subs ->
       (en = false \/ (CsrPattern.pmatch (CsrDecoder.sub_pattern aw w) (CsrDecoder.addr b) = true /\
                       creach ch (trunc (Z.min (CsrDecoder.s_aw w) aw) (CsrDecoder.addr b)) = None)) ->
       quiet_after ch s1 rv (CsrDecoder.sub_drive aw w en b)).
    { intros w ch s1 en Hin [->|[_ Hn]].
      - apply (idle_quiet ch (Hwf _ Hin)); reflexivity.
      - apply (IH _ Hin (Hwf _ Hin)). cbn [CsrDecoder.sub_drive CsrDecoder.addr]. exact Hn. }
    destruct (dec_loops_quiet aw rv b subs false ss Hq (or_intror Hc)) as (T1 & T2 & T3).
    split; [|split].
    + rewrite c_leaves_dec. exact T1.
    + intros rv' b' lo. rewrite c_next_dec, c_leaves_dec. apply T2.
    + rewrite c_next_dec, c_rdata_dec. apply fold_lor_zeros. exact T3.
Qed.
