(* C01, rung 2 (part): the Wishbone layer of the cycle-exact machine.  While the root decoder selects no
   subordinate (or cyc is low), nothing is acknowledged, no SRAM sees cyc or changes, and no register
   below any bridge is read-strobed; this holds for whole traces, from the initial state. *)
From Coq Require Import ZArith List Bool Lia ZifyBool Arith.
From Soc Require Import Lib.Res Lib.Bits Model.MemoryMap Model.Hierarchy
  Proofs.LookupWf Proofs.HierCsr Proofs.HierInert Proofs.HierWf.
From Soc Require Lib.CsrPattern Model.Mux Model.CsrDecoder Model.WbDecoder Model.WbCsrBridge Model.Sram
  Proofs.WbDecoder Proofs.Sram.
Import ListNotations.
Open Scope Z_scope.

Local Opaque Z.pow.

(* one subordinate's hardware is well formed / a state fits it *)
Definition whw_wf (hh : whw) : Prop :=
  match hh with
  | HBridge _ ch => hw_wf ch
  | HSram _ g rows0 => Proofs.Sram.wf g /\ Proofs.Sram.rows_ok g rows0
  end.

Definition wst_ok (hh : whw) (s : wst) : Prop :=
  match hh, s with
  | HSram _ g _, SSram ss => Proofs.Sram.rows_ok g (Sram.rows ss)
  | HBridge _ _, SBridge _ _ => True
  | _, _ => False
  end.

Definition wbhw_wf (h : wbhw) : Prop :=
  length (WbDecoder.c_subs (wh_cfg h)) = length (wh_subs h) /\ Forall whw_wf (wh_subs h).

(* the request does not reach any subordinate *)
Definition unselected (h : wbhw) (q : WbDecoder.breq) : Prop :=
  WbDecoder.cyc q = false \/ WbDecoder.selected (wh_cfg h) (WbDecoder.adr q) = None.

Definition ack_low (s : wst) : Prop := WbDecoder.ack (wresp s) = false.

Definition sram_rows (s : wst) : list (list Z) :=
  match s with SSram ss => [Sram.rows ss] | SBridge _ _ => [] end.

Lemma unselected_no_cyc h ss q : unselected h q ->
  Forall (fun so => WbDecoder.o_cyc so = false) (WbDecoder.out_s (wb_dec_out h ss q)).
Proof.
  intros Hu. unfold wb_dec_out, WbDecoder.out. cbn [WbDecoder.out_s WbDecoder.in_b].
  generalize 0%nat as j0. induction (WbDecoder.c_subs (wh_cfg h)) as [|s l IH]; intros j0; [constructor|].
  cbn [WbDecoder.sub_outs]. constructor; [|apply IH].
  cbn [WbDecoder.sub_out WbDecoder.o_cyc]. destruct Hu as [->| ->]; [apply andb_false_r|reflexivity].
Qed.

Lemma winit_ok hh : whw_wf hh -> wst_ok hh (winit hh) /\ ack_low (winit hh).
Proof.
  destruct hh as [id g rows0|bc ch]; intros H; unfold ack_low; cbn [winit wst_ok wresp whw_wf] in *.
  - split; [exact (proj2 H)|reflexivity].
  - split; [exact I|reflexivity].
Qed.

(* one subordinate that sees no cyc *)
Lemma sub_no_cyc hh s rv so : whw_wf hh -> wst_ok hh s -> WbDecoder.o_cyc so = false -> ack_low s ->
  ack_low (w_next hh s rv so) /\ wst_ok hh (w_next hh s rv so) /\
  sram_rows (w_next hh s rv so) = sram_rows s /\
  (forall lo, In lo (w_leaves hh s rv so) -> lo_rstb lo = false) /\
  (forall x, In x (w_srams hh s so) -> snd (fst x) = false /\ [snd x] = sram_rows s).
Proof.
  unfold ack_low. intros Hwf Hok Hc Ha.
  destruct hh as [id g rows0|bc ch]; destruct s as [ss|b cs]; try contradiction;
    cbn [w_next w_leaves w_srams wresp sram_rows wst_ok whw_wf WbDecoder.ack] in *.
  - destruct Hwf as [Wg _].
    assert (Hacc : Proofs.Sram.accepted_write g ss (sram_inp so) = false).
    { unfold Proofs.Sram.accepted_write, Proofs.Sram.accepted, sram_inp. cbn [Sram.cyc]. rewrite Hc.
      destruct (Sram.g_wr g), (negb (Sram.ack ss)); reflexivity. }
    pose proof (Proofs.Sram.rows_step_no_write g ss (sram_inp so) Wg Hok Hacc) as Hrows.
    split; [|split; [|split; [|split]]].
    + rewrite Proofs.Sram.ack_step. unfold Proofs.Sram.accepted, sram_inp. cbn [Sram.cyc]. rewrite Hc.
      destruct (negb (Sram.ack ss)); reflexivity.
    + rewrite Hrows. exact Hok.
    + rewrite Hrows. reflexivity.
    + intros lo [].
    + intros x [<-|[]]. cbn [fst snd]. auto.
  - set (i := bridge_inp ch cs so). assert (Hcyc : WbCsrBridge.cyc i = false) by exact Hc.
    split; [|split; [exact I|split; [reflexivity|split]]].
    + unfold WbCsrBridge.next. rewrite Hcyc, Ha. cbn [andb WbCsrBridge.ack]. exact Ha.
    + intros lo Hin.
      assert (Hq : quiet_after ch cs rv (csr_bus_of (WbCsrBridge.out bc b i))).
      { apply idle_quiet; [exact Hwf| |]; unfold csr_bus_of, WbCsrBridge.out; rewrite Hcyc; reflexivity. }
      exact (proj1 Hq lo Hin).
    + intros x [].
Qed.

(* all subordinates at once *)
Lemma subs_no_cyc rv : forall hs ss outs,
  Forall whw_wf hs -> Forall2 wst_ok hs ss -> Forall ack_low ss ->
  Forall (fun so => WbDecoder.o_cyc so = false) outs -> length outs = length hs ->
  Forall2 wst_ok hs (map3 (fun hh s so => w_next hh s rv so) hs ss outs) /\
  Forall ack_low (map3 (fun hh s so => w_next hh s rv so) hs ss outs) /\
  concat (map sram_rows (map3 (fun hh s so => w_next hh s rv so) hs ss outs)) = concat (map sram_rows ss) /\
  (forall lo, In lo (concat (map3 (fun hh s so => w_leaves hh s rv so) hs ss outs)) -> lo_rstb lo = false) /\
  (forall x, In x (concat (map3 (fun hh s so => w_srams hh s so) hs ss outs)) -> snd (fst x) = false) /\
  map (fun x : Z * bool * list Z => snd x) (concat (map3 (fun hh s so => w_srams hh s so) hs ss outs))
    = concat (map sram_rows ss).
Proof.
  induction hs as [|hh hs IH]; intros ss outs Hwf Hok Hack Hcyc Hlen.
  - inversion Hok; subst. cbn. repeat split; auto; intros; contradiction.
  - inversion Hok as [|? s ? ss' Hs Hok']; subst. destruct outs as [|so outs]; [discriminate|].
    inversion Hwf as [|? ? Hw Hwf']; subst. inversion Hack as [|? ? Ha Hack']; subst.
    inversion Hcyc as [|? ? Hc Hcyc']; subst. cbn [length] in Hlen.
    destruct (IH ss' outs Hwf' Hok' Hack' Hcyc' ltac:(lia)) as (I1 & I2 & I3 & I4 & I5 & I6).
    destruct (sub_no_cyc hh s rv so Hw Hs Hc Ha) as (S1 & S2 & S3 & S4 & S5).
    cbn [map3 map concat]. split; [constructor; assumption|]. split; [constructor; assumption|].
    split; [rewrite S3, I3; reflexivity|]. split; [|split].
    + intros lo Hin. apply in_app_or in Hin as [Hin|Hin]; [exact (S4 lo Hin)|exact (I4 lo Hin)].
    + intros x Hin. apply in_app_or in Hin as [Hin|Hin]; [exact (proj1 (S5 x Hin))|exact (I5 x Hin)].
    + rewrite map_app, I6. f_equal.
      destruct hh as [id g rows0|bc ch]; destruct s as [sst|b cs]; try contradiction; reflexivity.
Qed.

Lemma out_s_length h ss q : length (WbDecoder.out_s (wb_dec_out h ss q)) = length (WbDecoder.c_subs (wh_cfg h)).
Proof. unfold wb_dec_out, WbDecoder.out. cbn [WbDecoder.out_s]. apply Proofs.WbDecoder.sub_outs_length. Qed.

Lemma acks_low_no_ack h ss q : Forall ack_low ss -> WbDecoder.r_ack (WbDecoder.out_b (wb_dec_out h ss q)) = false.
Proof.
  intros Ha. unfold wb_dec_out, WbDecoder.out, WbDecoder.bus_out. cbn [WbDecoder.out_b WbDecoder.r_ack WbDecoder.in_s].
  apply Proofs.WbDecoder.fanin_none. intros k s r _ Hr.
  apply nth_error_In in Hr. apply in_map_iff in Hr as (st & <- & Hin).
  rewrite Forall_forall in Ha. exact (Ha st Hin).
Qed.

(* the trace theorem: from any state in which no subordinate is acknowledging (in particular the initial
   one), as long as no request reaches a subordinate *)
Theorem unselected_trace h : wbhw_wf h -> forall tr ss,
  Forall2 wst_ok (wh_subs h) ss -> Forall ack_low ss ->
  (forall q rv, In (q, rv) tr -> unselected h q) ->
  forall o, In o (wb_run h ss tr) ->
    wo_ack o = false /\
    (forall lo, In lo (wo_leaves o) -> lo_rstb lo = false) /\
    (forall x, In x (wo_srams o) -> snd (fst x) = false) /\
    map (fun x : Z * bool * list Z => snd x) (wo_srams o) = concat (map sram_rows ss).
Proof.
  intros [Hlen Hwf]. induction tr as [|[q rv] tr IH]; intros ss Hok Hack Hu o Hin; [contradiction|].
  assert (Huq : unselected h q) by (apply (Hu q rv); left; reflexivity).
  pose proof (unselected_no_cyc h ss q Huq) as Hcyc.
  assert (Hl : length (WbDecoder.out_s (wb_dec_out h ss q)) = length (wh_subs h)).
  { rewrite out_s_length. exact Hlen. }
  destruct (subs_no_cyc rv _ _ _ Hwf Hok Hack Hcyc Hl) as (I1 & I2 & I3 & I4 & I5 & I6).
  cbn [wb_run] in Hin. destruct Hin as [<-|Hin].
  - unfold wb_out. cbn [wo_ack wo_leaves wo_srams]. split; [apply acks_low_no_ack; exact Hack|].
    split; [exact I4|]. split; [exact I5|exact I6].
  - assert (Hu' : forall q0 rv0, In (q0, rv0) tr -> unselected h q0).
    { intros q0 rv0 H0. apply (Hu q0 rv0). right. exact H0. }
    destruct (IH (wb_next h ss q rv) I1 I2 Hu' o Hin) as (R1 & R2 & R3 & R4).
    split; [exact R1|]. split; [exact R2|]. split; [exact R3|]. rewrite R4. exact I3.
Qed.

(* from the reset state *)
Corollary unselected_trace_init h : wbhw_wf h -> forall tr,
  (forall q rv, In (q, rv) tr -> unselected h q) ->
  forall o, In o (wb_run h (map winit (wh_subs h)) tr) ->
    wo_ack o = false /\
    (forall lo, In lo (wo_leaves o) -> lo_rstb lo = false) /\
    (forall x, In x (wo_srams o) -> snd (fst x) = false) /\
    map (fun x : Z * bool * list Z => snd x) (wo_srams o) = concat (map sram_rows (map winit (wh_subs h))).
Proof.
  intros Hwf tr. apply unselected_trace; [exact Hwf| |].
  - destruct Hwf as [_ Hw]. induction (wh_subs h) as [|hh l IH]; [constructor|].
    inversion Hw; subst. constructor; [exact (proj1 (winit_ok hh H1))|apply IH; assumption].
  - destruct Hwf as [_ Hw]. induction (wh_subs h) as [|hh l IH]; [constructor|].
    inversion Hw; subst. constructor; [exact (proj2 (winit_ok hh H1))|apply IH; assumption].
Qed.

(* ------------------------------------------------------------------ well-formedness from the construction *)

Fixpoint wb_dom_subs (l : list (wopt * bool * wbnode)) : Prop :=
  match l with
  | [] => True
  | (_, _, SramLeaf _ _ _ _ _ _) :: l' => wb_dom_subs l'
  | (_, _, BridgeNode _ _ c) :: l' => csr_dom c /\ csr_widths c /\ wb_dom_subs l'
  end.

Lemma wb_hw_wf n g hh : match n with BridgeNode _ _ c => csr_dom c /\ csr_widths c | _ => True end ->
  wb_hw n = Ok (g, hh) -> whw_wf hh.
Proof.
  destruct n as [id size dw gran wr init|dw nm c]; cbn [wb_hw]; intros Hd H.
  - destruct (Sram.construct _ _ _ _ _) as [[ge rows0]|] eqn:E; [|discriminate].
    injection H as _ <-. cbn [whw_wf]. exact (Proofs.Sram.construct_wf _ _ _ _ _ _ _ E).
  - apply bind_ok in H as (h & Hh & H).
    destruct (WbCsrBridge.construct _) as [gg|]; [|discriminate]. injection H as _ <-.
    cbn [whw_wf]. exact (csr_hw_wf c (proj1 Hd) (proj2 Hd) h Hh).
Qed.

Lemma wb_subs_wf m : forall l k r, wb_dom_subs l -> wb_subs m k l = Ok r -> Forall whw_wf (map snd r).
Proof.
  induction l as [|[[o sp] n] l IH]; cbn [wb_subs]; intros k r Hd H.
  - injection H as <-. constructor.
  - apply bind_ok in H as ([g hh] & Eh & H). destruct (win_of m k) as [w|]; [|discriminate].
    apply bind_ok in H as (r' & Er & H). injection H as <-. cbn [map snd]. constructor.
    + apply (wb_hw_wf n g hh); [|exact Eh]. destruct n; [exact I|]. cbn in Hd. tauto.
    + apply (IH (k + 1) r'); [|exact Er]. destruct n; cbn in Hd; tauto.
Qed.

Theorem wbroot_hw_wf r h : wb_dom_subs (wr_subs r) -> wbroot_hw r = Ok h -> wbhw_wf h.
Proof.
  intros Hd H. unfold wbroot_hw in H. apply bind_ok in H as (m & Hm & H). apply bind_ok in H as (l & Hl & H).
  injection H as <-. split; cbn [wh_cfg wh_subs WbDecoder.c_subs].
  - rewrite !map_length. reflexivity.
  - exact (wb_subs_wf m _ _ _ Hd Hl).
Qed.
