(* csr.Builder (C17): the theorems as stated in Properties/C17.v, over every builder some history of
   API calls produces.  The work is in BuilderArith.v (arithmetic), BuilderMap.v (as_memory_map on top
   of the C02/C18 memory-map proofs), BuilderLayout.v (closed-form layout, ordering) and
   BuilderInv.v (histories, lexical scopes, frozen builders). *)
From Coq Require Import ZArith List Bool Lia ZifyBool Arith Permutation.
From Soc Require Import Lib.Res Lib.Bits Lib.PyList Model.MemoryMap Model.MemSpec Model.Builder
                        Model.BuilderSpec.
From Soc Require Import Proofs.MemArith Proofs.MemAlloc Proofs.MemReports Proofs.BuilderArith
                        Proofs.BuilderMap Proofs.BuilderLayout Proofs.BuilderInv.
Import ListNotations.
Open Scope Z_scope.

Local Opaque Z.pow Z.div Z.modulo.

(* a frozen builder refuses every add: TypeError for a non-register (checked first), else ValueError *)
Lemma frozen_builder_rejects b nm r off : bd_frozen b = true ->
  badd b nm r off = Err (match r with RNotReg => TypeError | RReg _ _ => ValueError end).
Proof. intros H. unfold badd. destruct r; [|reflexivity]. rewrite H. reflexivity. Qed.

Lemma as_memory_map_freezes b : bd_frozen (fst (as_memory_map b)) = true.
Proof. reflexivity. Qed.

(* an accepted add records exactly: the register, its width, scope stack + name, the offset *)
Lemma add_records b nm r off b' : badd b nm r off = Ok b' ->
  exists id w o, r = RReg id w /\ bd_frozen b = false /\
    (off = VNone /\ o = None \/ exists z, off = VInt z /\ 0 <= z /\ z mod (bd_dw b / bd_gran b) = 0 /\ o = Some z) /\
    ~ In id (map b_id (bd_regs b)) /\
    bd_regs b' = bd_regs b ++ [{| b_id := id; b_width := w;
                                  b_name := bd_stack b ++ [PStr (atom_of nm)]; b_off := o |}] /\
    bd_stack b' = bd_stack b /\ bd_frozen b' = false.
Proof.
  intros H. apply badd_inv in H as (id & w & o & -> & Hfr & _ & Ho & Hhas & ->).
  exists id, w, o. repeat split; auto. apply has_reg_false, Hhas.
Qed.

Lemma legal_not_illegal b : legal b -> illegal b -> False.
Proof.
  intros Hl (before & p & after & Heq & Hbad). destruct (Hl before p after Heq) as (He & Hall).
  destruct Hbad as [Hb|(q & Hq & Hb)]; [lia|]. destruct (Hall q Hq). destruct Hb; auto.
Qed.

(* rejects_iff *)
Lemma rejects_iff b : reachable_builder b ->
  (snd (as_memory_map b) = Err ValueError <-> illegal b) /\
  ((exists m, snd (as_memory_map b) = Ok m) <-> legal b) /\
  (legal b <-> ~ illegal b) /\
  (forall e, snd (as_memory_map b) = Err e -> e = ValueError).
Proof.
  intros Hr. pose proof (reachable_binv b Hr) as Hb.
  destruct (as_memory_map_spec b Hb) as [(Hleg & m & Hm & _)|(Hill & He)].
  - split; [split; [rewrite Hm; discriminate|intros Hi; destruct (legal_not_illegal b Hleg Hi)]|].
    split; [split; [auto|eauto]|].
    split; [split; [intros _ Hi; exact (legal_not_illegal b Hleg Hi)|auto]|].
    intros e H. rewrite Hm in H. discriminate.
  - split; [split; auto|].
    split; [split; [intros (m & Hm); rewrite He in Hm; discriminate
                   |intros Hl; destruct (legal_not_illegal b Hl Hill)]|].
    split; [split; [intros Hl Hi; exact (legal_not_illegal b Hl Hi)|intros Hn; destruct (Hn Hill)]|].
    intros e H. rewrite He in H. injection H as <-. reflexivity.
Qed.

(* the layout of an accepted builder, register by register *)
Lemma layout b m : reachable_builder b -> snd (as_memory_map b) = Ok m ->
  forall i r, nth_error (bd_regs b) i = Some r ->
  exists p, nth_error (placed b) i = Some p /\ In p (resources m) /\
    p_id p = b_id r /\ p_name p = b_name r /\ p_end p = p_start p + span b r /\
    (forall o, b_off r = Some o ->
       p_start p * bd_dw b = o * bd_gran b /\ p_start p = o / (bd_dw b / bd_gran b)) /\
    (b_off r = None -> least_multiple_ge (span b r) (prev_end b i) (p_start p)).
Proof.
  intros Hr Hm i r Hi. pose proof (reachable_binv b Hr) as Hb.
  destruct (layout_rule b Hb i r Hi) as (p & Hp & H1 & H2 & H3 & H4 & H5).
  exists p. split; [exact Hp|]. split; [|auto 6].
  destruct (as_memory_map_spec b Hb) as [(_ & m' & Hm' & _ & _ & _ & _ & _ & _ & _ & Hrep)|(_ & He)];
    [|rewrite He in Hm; discriminate].
  rewrite Hm in Hm'. injection Hm' as <-. apply Hrep. eapply nth_error_In; eauto.
Qed.

Lemma explicit_at_offset b m r o : reachable_builder b -> snd (as_memory_map b) = Ok m ->
  In r (bd_regs b) -> b_off r = Some o ->
  exists s, In (b_id r, b_name r, s, s + span b r) (resources m) /\
            s * bd_dw b = o * bd_gran b /\ s = o / (bd_dw b / bd_gran b).
Proof.
  intros Hr Hm Hin Ho. apply In_nth_error in Hin as (i & Hi).
  destruct (layout b m Hr Hm i r Hi) as (p & _ & Hp & H1 & H2 & H3 & H4 & _).
  destruct p as [[[id n] s] e]. cbn [p_id p_name p_start p_end] in *. subst id n e.
  exists s. split; [exact Hp|]. apply H4, Ho.
Qed.

Lemma implicit_first_aligned_after_prev b m i r : reachable_builder b -> snd (as_memory_map b) = Ok m ->
  nth_error (bd_regs b) i = Some r -> b_off r = None ->
  exists s, In (b_id r, b_name r, s, s + span b r) (resources m) /\
            least_multiple_ge (span b r) (prev_end b i) s /\
            match i with
            | O => prev_end b i = 0
            | S j => exists r' q, nth_error (bd_regs b) j = Some r' /\ nth_error (placed b) j = Some q /\
                                  In q (resources m) /\ p_id q = b_id r' /\ prev_end b i = p_end q
            end.
Proof.
  intros Hr Hm Hi Ho.
  destruct (layout b m Hr Hm i r Hi) as (p & _ & Hp & H1 & H2 & H3 & _ & H5).
  destruct p as [[[id n] s] e]. cbn [p_id p_name p_start p_end] in *. subst id n e.
  exists s. split; [exact Hp|]. split; [apply H5, Ho|].
  destruct i as [|j]; [reflexivity|].
  assert (Hj : (j < length (bd_regs b))%nat).
  { apply Nat.lt_succ_l. apply nth_error_Some. rewrite Hi. discriminate. }
  destruct (nth_error (bd_regs b) j) as [r'|] eqn:Ej; [|apply nth_error_None in Ej; lia].
  destruct (layout b m Hr Hm j r' Ej) as (q & Hq & Hqin & Hqid & _).
  exists r', q. unfold prev_end. rewrite Hq. auto.
Qed.

Lemma size_pow2 b r : reachable_builder b -> In r (bd_regs b) ->
  (0 <= units b r /\ b_width r <= units b r * bd_dw b /\ units b r * bd_dw b < b_width r + bd_dw b) /\
  exists k, 0 <= k /\ span b r = 2 ^ k /\ Z.max (units b r) 1 <= 2 ^ k /\
            (0 < k -> 2 ^ (k - 1) < Z.max (units b r) 1).
Proof.
  intros Hr Hin. pose proof (reachable_binv b Hr) as [Hg Hregs _ _].
  rewrite Forall_forall in Hregs. destruct (Hregs r Hin) as (Hw & _). apply span_rule; assumption.
Qed.

Lemma resources_sorted b m : reachable_builder b -> snd (as_memory_map b) = Ok m ->
  ascending 0 (keys (resources m)) /\ Permutation (resources m) (placed b) /\
  (ascending 0 (keys (placed b)) -> resources m = placed b).
Proof. intros Hr Hm. apply (resources_of_map b m (reachable_binv b Hr) Hm). Qed.

Lemma insertion_order_implicit b m : reachable_builder b -> snd (as_memory_map b) = Ok m ->
  (forall r, In r (bd_regs b) -> b_off r = None) -> resources m = placed b.
Proof. intros Hr. apply implicit_insertion_order, reachable_binv, Hr. Qed.

(* ------------------------------------------------------------------ the map is a C02/C18 memory map *)

Definition res_op (b : builder) (r : breg) : op :=
  ORes 0 (b_id r) true (NTuple (map raw_of_part (b_name r))) (VInt (reg_size b r)) (reg_addr b r)
       (VInt (ceil_log2 (reg_size b r))).

Lemma world_after_snoc ops o : world_after (ops ++ [o]) = fst (wstep (world_after ops) o).
Proof. unfold world_after. rewrite fold_left_app. reflexivity. Qed.

Lemma add_regs_reachable b l : forall m m' ops, add_regs b m l = Ok m' -> [m] = world_after ops ->
  [m'] = world_after (ops ++ map (res_op b) l).
Proof.
  induction l as [|r l IH]; intros m m' ops H Hw; cbn [add_regs map] in *.
  - injection H as <-. rewrite app_nil_r. exact Hw.
  - destruct (add_resource m _ _ _ _ _ _) as [[m1 x]|e] eqn:E; cbn [bind] in H; [|discriminate].
    replace (ops ++ res_op b r :: map (res_op b) l) with ((ops ++ [res_op b r]) ++ map (res_op b) l)
      by (rewrite <- app_assoc; reflexivity).
    apply (IH m1 m' _ H). rewrite world_after_snoc, <- Hw. unfold res_op. cbn [wstep nth_error].
    rewrite E. reflexivity.
Qed.

(* the returned map is what a history of MemoryMap calls produces (so every C02/C03/C18 theorem applies
   to it), frozen, with the builder's geometry, alignment 0 and no windows *)
Lemma map_reachable b m : reachable_builder b -> snd (as_memory_map b) = Ok m ->
  reachable [m] /\ m_frozen m = true /\ m_aw m = bd_aw b /\ m_dw m = bd_dw b /\ m_al m = 0 /\
  windows m = [].
Proof.
  intros Hr Hm. pose proof (reachable_binv b Hr) as Hb.
  destruct (as_memory_map_spec b Hb) as [(_ & m' & Hm' & Hwf & Hf & Ha & Hd & Hal & Hw & _)|(_ & He)];
    [|rewrite He in Hm; discriminate].
  rewrite Hm in Hm'. injection Hm' as <-.
  split; [|repeat split; auto].
  - unfold as_memory_map in Hm. cbn [snd] in Hm.
    destruct (new_map _ _ _) as [m0|] eqn:E0; cbn [bind] in Hm; [|discriminate].
    destruct (add_regs _ m0 _) as [m1|] eqn:E1; cbn [bind] in Hm; [|discriminate].
    injection Hm as <-.
    pose proof (add_regs_reachable _ _ m0 m1
                  [ONew (VInt (bd_aw (bfreeze b))) (VInt (bd_dw (bfreeze b))) (VInt 0)] E1) as Hw1.
    exists (([ONew (VInt (bd_aw (bfreeze b))) (VInt (bd_dw (bfreeze b))) (VInt 0)] ++
             map (res_op (bfreeze b)) (bd_regs (bfreeze b))) ++ [OFreeze 0]).
    rewrite world_after_snoc, <- Hw1; [reflexivity|].
    unfold world_after. cbn [fold_left wstep]. rewrite E0. reflexivity.
  - unfold windows. destruct m; msimpl. subst. clear. induction ranges as [|x l IH]; [reflexivity|].
    cbn [flat_map]. rewrite IH. destruct (e_asg x); reflexivity.
Qed.
