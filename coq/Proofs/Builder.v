(* csr.Builder (C17): layout theorems on top of the memory-map proofs. *)
From Coq Require Import ZArith List Bool Lia ZifyBool Arith.
From Soc Require Import Lib.Res Lib.Bits Lib.PyList Model.MemoryMap Model.MemSpec Model.Builder.
Import ListNotations.
Open Scope Z_scope.

(* a frozen builder refuses every add: TypeError for a non-register (checked first), else ValueError *)
Lemma frozen_builder_rejects b nm r off : bd_frozen b = true ->
  badd b nm r off = Err (match r with RNotReg => TypeError | RReg _ _ => ValueError end).
Proof. intros H. unfold badd. destruct r; [|reflexivity]. rewrite H. reflexivity. Qed.
