(* The chunk table of the multiplexer model: membership, no duplicates, lookup in the state lists. *)
From Coq Require Import ZArith List Bool Lia.
From Soc Require Import Lib.Bits Model.Mux.
Import ListNotations.
Open Scope Z_scope.

Lemma existsb_eqb_In x l : existsb (fun y => y =? x) l = true <-> In x l.
Proof.
  rewrite existsb_exists. split.
  - intros (y & Hy & E). apply Z.eqb_eq in E. subst; auto.
  - intros H. exists x. split; auto. apply Z.eqb_refl.
Qed.

Lemma dedup_In l : forall seen x, In x (dedup l seen) <-> In x l /\ ~ In x seen.
Proof.
  induction l as [|y l IH]; simpl; intros seen x.
  - tauto.
  - destruct (existsb (fun z => z =? y) seen) eqn:E.
    + apply existsb_eqb_In in E. rewrite IH. split.
      * intros [H1 H2]; auto.
      * intros [[->|H1] H2]; [contradiction|auto].
    + assert (Hn : ~ In y seen) by (intros H; apply existsb_eqb_In in H; congruence).
      simpl. rewrite IH. simpl. split.
      * intros [->|[H1 H2]]; [auto|]. split; [auto|]. intros H; apply H2; auto.
      * intros [[->|H1] H2]; [auto|].
        destruct (Z.eq_dec y x) as [->|Hne]; [auto|]. right. split; auto. intros [H|H]; auto.
Qed.

Lemma dedup_NoDup l : forall seen, NoDup (dedup l seen).
Proof.
  induction l as [|y l IH]; simpl; intros seen; [constructor|].
  destruct (existsb (fun z => z =? y) seen); [apply IH|].
  constructor; [|apply IH]. rewrite dedup_In. simpl. tauto.
Qed.

Lemma table_NoDup S regs : NoDup (table S regs).
Proof. apply dedup_NoDup. Qed.

Lemma addrs_In r a : In a (addrs r) <-> r_start r <= a < r_stop r.
Proof.
  unfold addrs. rewrite in_map_iff. split.
  - intros (j & <- & Hj). apply in_seq in Hj. unfold reg_len in *. lia.
  - intros H. exists (Z.to_nat (a - r_start r)). split; [lia|].
    apply in_seq. unfold reg_len. lia.
Qed.

Lemma offsets_In S regs o :
  In o (offsets S regs) <-> exists r a, In r regs /\ r_start r <= a < r_stop r /\ o = decode S r a.
Proof.
  unfold offsets. rewrite in_flat_map. split.
  - intros (r & Hr & Ho). apply in_map_iff in Ho. destruct Ho as (a & <- & Ha).
    exists r, a. rewrite <- addrs_In. auto.
  - intros (r & a & Hr & Ha & ->). exists r. split; auto. apply in_map. apply addrs_In; auto.
Qed.

Lemma table_In S regs o :
  In o (table S regs) <-> exists r a, In r regs /\ r_start r <= a < r_stop r /\ o = decode S r a.
Proof. unfold table. rewrite dedup_In. rewrite offsets_In. simpl. tauto. Qed.

Lemma touches_spec S r o :
  touches S r o = true <-> exists a, r_start r <= a < r_stop r /\ decode S r a = o.
Proof.
  unfold touches. rewrite existsb_exists. split.
  - intros (a & Ha & E). apply Z.eqb_eq in E. exists a. rewrite <- addrs_In. auto.
  - intros (a & Ha & E). exists a. rewrite addrs_In. split; auto. apply Z.eqb_eq; auto.
Qed.

(* lookup in a state list built by `map (fun o => (o, f o)) tbl` *)
Lemma get_map_table (f : Z -> Z) tbl o :
  get (map (fun o => (o, f o)) tbl) o = if existsb (fun y => y =? o) tbl then f o else 0.
Proof.
  induction tbl as [|x tbl IH]; simpl; [reflexivity|].
  rewrite (Z.eqb_sym x o). destruct (o =? x) eqn:E.
  - apply Z.eqb_eq in E. subst. reflexivity.
  - simpl. exact IH.
Qed.

Lemma get_map_table_in (f : Z -> Z) tbl o : In o tbl -> get (map (fun o => (o, f o)) tbl) o = f o.
Proof. intros H. rewrite get_map_table. apply existsb_eqb_In in H. rewrite H. reflexivity. Qed.

(* OR-reduction where at most the entry `o` is non-zero *)
Lemma fold_lor_single (g : Z -> Z) tbl o : NoDup tbl ->
  (forall x, In x tbl -> x <> o -> g x = 0) ->
  fold_left (fun acc x => Z.lor acc (g x)) tbl 0 = if existsb (fun y => y =? o) tbl then g o else 0.
Proof.
  intros Hnd Hz.
  assert (G : forall acc, fold_left (fun acc x => Z.lor acc (g x)) tbl acc =
                          Z.lor acc (if existsb (fun y => y =? o) tbl then g o else 0)).
  { induction tbl as [|x tbl IH]; simpl; intros acc.
    - rewrite Z.lor_0_r. reflexivity.
    - inversion Hnd as [|? ? Hx Hnd']; subst.
      rewrite IH; auto; [|intros y Hy; apply Hz; simpl; auto].
      destruct (x =? o) eqn:E.
      + apply Z.eqb_eq in E. subst x. simpl.
        assert (existsb (fun y => y =? o) tbl = false).
        { destruct (existsb (fun y => y =? o) tbl) eqn:E'; auto.
          apply existsb_eqb_In in E'. contradiction. }
        rewrite H. rewrite Z.lor_0_r. reflexivity.
      + simpl. rewrite (Hz x); simpl; auto; [|apply Z.eqb_neq; auto].
        rewrite Z.lor_0_r. reflexivity. }
  rewrite G. apply Z.lor_0_l.
Qed.
