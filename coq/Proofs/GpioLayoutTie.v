(* C16: the placement loop of Model/Gpio.v (`place`) gives, for EVERY geometry, the ranges (or the ValueError) that the
   C02 memory-map model gives when driven the way csr.Builder.as_memory_map drives the real MemoryMap.  Together
   with place_spec (Proofs/GpioCtor.v) this makes the documented GPIO layout a consequence of the C02 model. *)
From Coq Require Import ZArith List Bool Lia ZifyBool Arith.
From Soc Require Import Lib.Bits Lib.Res Lib.PyList Model.MemoryMap Model.GpioBuilder.
From Soc Require Model.Gpio Model.Mux Proofs.MemArith.
Import ListNotations.
Open Scope Z_scope.

Definition ends_before (l : list entry) (nx : Z) : Prop :=
  Forall (fun x => e_start x < e_stop x /\ e_stop x <= nx) l.

Lemma bisect_right_all l x : Forall (fun y => y <= x) l -> bisect_right l x = length l.
Proof. induction 1 as [|y l Hy _ IH]; [reflexivity|]. cbn. replace (y <=? x) with true by lia. rewrite IH. reflexivity. Qed.

Lemma bisect_left_all l x : Forall (fun y => y < x) l -> bisect_left l x = length l.
Proof. induction 1 as [|y l Hy _ IH]; [reflexivity|]. cbn. replace (y <? x) with true by lia. rewrite IH. reflexivity. Qed.

Lemma insert_at_end {A} (x : A) : forall l, insert_at (length l) x l = l ++ [x].
Proof. induction l as [|y l IH]; [reflexivity|]. cbn. rewrite IH. reflexivity. Qed.

Lemma rm_overlaps_end l nx s e : ends_before l nx -> nx <= s -> rm_overlaps l s e = [].
Proof.
  intros H Hs. unfold rm_overlaps.
  rewrite bisect_right_all.
  - unfold stops. rewrite map_length, skipn_all. apply firstn_nil.
  - unfold stops. apply Forall_map. eapply Forall_impl; [|exact H]. cbn. intros; lia.
Qed.

Lemma rm_insert_end l nx x : ends_before l nx -> nx <= e_start x -> e_start x < e_stop x ->
  rm_insert l x = Ok (l ++ [x]).
Proof.
  intros H Hs Hse. unfold rm_insert. rewrite (rm_overlaps_end l nx) by assumption.
  rewrite bisect_right_all, bisect_left_all.
  - unfold starts, stops. rewrite !map_length, Nat.eqb_refl, insert_at_end. reflexivity.
  - unfold stops. apply Forall_map. eapply Forall_impl; [|exact H]. cbn. intros; lia.
  - unfold starts. apply Forall_map. eapply Forall_impl; [|exact H]. cbn. intros; lia.
Qed.

Lemma ends_before_app l nx x : ends_before l nx -> nx <= e_start x -> e_start x < e_stop x ->
  ends_before (l ++ [x]) (e_stop x).
Proof.
  intros H Hs Hse. apply Forall_app. split.
  - eapply Forall_impl; [|exact H]. cbn. intros; lia.
  - constructor; [lia|constructor].
Qed.

(* one add_resource(reg, name=(atom,), addr=None, size=size, alignment=al) on a window-less, unfrozen map
   with alignment 0 whose ranges all end at or before the cursor *)
Lemma add_resource_step aw dw ranges ress names nx id atom size al :
  ends_before ranges nx -> 0 <= nx -> 0 <= size -> 0 <= al ->
  has_res (MM aw dw 0 ranges ress [] names nx false) id = false ->
  (atom =? 0) = false -> is_available names [[PStr atom]] = Ok true ->
  let a := align_up nx al in
  let sz := align_up (Z.max size 1) al in
  add_resource (MM aw dw 0 ranges ress [] names nx false) id true (NTuple [RStr atom]) (VInt size) VNone (VInt al) =
  if (a >? Z.shiftl 1 aw) || (a + sz >? Z.shiftl 1 aw) then Err ValueError
  else Ok (MM aw dw 0 (ranges ++ [{| e_start := a; e_stop := a + sz; e_step := 1; e_asg := AR id |}])
              (ress ++ [{| r_id := id; r_name := [PStr atom]; r_start := a; r_stop := a + sz |}])
              [] (names ++ [[PStr atom]]) (a + sz) false, (a, a + sz)).
Proof.
  intros He Hnx Hsz Hal Hhas Hatom Hav. cbv zeta.
  pose proof (MemArith.align_up_ge nx al Hal) as Hge.
  pose proof (MemArith.align_up_ge (Z.max size 1) al Hal) as Hge2.
  unfold add_resource. cbn [m_frozen negb check bind]. rewrite Hhas. cbn [negb check bind].
  unfold mk_name, mapR, valid_part. rewrite Hatom. cbn [bind m_names].
  match goal with |- context [is_available ?a ?b] => assert (E : is_available a b = Ok true) by exact Hav; rewrite E end.
  cbn [bind check nonneg zof m_al].
  replace (0 <=? al) with true by lia. cbn [check bind]. rewrite Z.max_l by lia.
  unfold compute_addr_range. cbn [m_next nonneg zof m_aw m_ranges bind check].
  replace (0 <=? size) with true by lia. cbn [check bind].
  destruct ((align_up nx al >? Z.shiftl 1 aw) || (align_up nx al + align_up (Z.max size 1) al >? Z.shiftl 1 aw)) eqn:Eb;
    cbn [negb check bind]; [reflexivity|].
  rewrite (rm_overlaps_end ranges nx) by (try assumption; lia).
  cbn [bind]. rewrite (rm_insert_end ranges nx) by (cbn; try assumption; lia).
  reflexivity.
Qed.

(* ------------------------------------------------------------------ Builder.as_memory_map vs `place` *)

Definition single_atoms_upto (id : Z) (names : list name) : Prop :=
  Forall (fun nm => exists a, nm = [PStr a] /\ 0 < a <= id) names.

Lemma fresh_id ress id : Forall (fun r => r_id r < id) ress -> existsb (fun r => r_id r =? id) ress = false.
Proof.
  induction 1 as [|r l Hr _ IH]; [reflexivity|]. cbn. rewrite IH. replace (r_id r =? id) with false by lia. reflexivity.
Qed.

Lemma check_reserved_fresh assigned atom : forall reserved id, single_atoms_upto id reserved -> id < atom ->
  check_reserved assigned [PStr atom] reserved = Ok false.
Proof.
  induction reserved as [|r reserved IH]; intros id H Hlt; [reflexivity|].
  inversion H as [|x l (a & -> & Ha) H']; subst.
  cbn [check_reserved]. unfold conflicts. cbn [length conflict_loop part_eqb].
  replace (atom =? a) with false by lia. cbn [negb bind]. apply (IH id); assumption.
Qed.

Lemma available_fresh names id atom : single_atoms_upto id names -> id < atom ->
  is_available names [[PStr atom]] = Ok true.
Proof.
  intros H Hlt. cbn [is_available]. rewrite app_nil_r.
  rewrite (check_reserved_fresh names atom names id H Hlt). reflexivity.
Qed.

Lemma regsize_nonneg dw w : 0 < dw -> 0 <= w -> 0 <= (w + dw - 1) / dw.
Proof. intros. apply Z.div_pos; lia. Qed.

Lemma ceil_log2_nonneg n : 0 <= ceil_log2 n.
Proof. unfold ceil_log2. destruct (n <=? 1); [lia | apply Z.log2_up_nonneg]. Qed.

Lemma add_all_place aw dw : 0 < dw -> forall specs ranges ress names nx id,
  Forall (fun s => 0 <= fst s) specs -> ends_before ranges nx -> 0 <= nx -> 0 <= id ->
  Forall (fun r => r_id r < id) ress -> single_atoms_upto id names ->
  add_all (MM aw dw 0 ranges ress [] names nx false) dw id specs = ranges_of (Gpio.place aw dw nx specs).
Proof.
  intros Hdw. induction specs as [|[w [rd wr]] specs IH]; intros ranges ress names nx id Hw He Hnx Hid Hress Hnames;
    [reflexivity|].
  inversion Hw as [|x l Hw0 Hw']; subst. cbn [fst] in Hw0.
  pose proof (regsize_nonneg dw w Hdw Hw0) as Hrs.
  pose proof (ceil_log2_nonneg ((w + dw - 1) / dw)) as Hal.
  cbn [add_all Gpio.place].
  rewrite add_resource_step; try assumption.
  2:{ unfold has_res. cbn [m_ress]. apply fresh_id, Hress. }
  2:{ lia. }
  2:{ apply (available_fresh names id); [exact Hnames|lia]. }
  set (a := align_up nx (ceil_log2 ((w + dw - 1) / dw))).
  set (sz := align_up (Z.max ((w + dw - 1) / dw) 1) (ceil_log2 ((w + dw - 1) / dw))).
  pose proof (MemArith.align_up_ge nx _ Hal) as Hge. fold a in Hge.
  pose proof (MemArith.align_up_ge (Z.max ((w + dw - 1) / dw) 1) _ Hal) as Hge2. fold sz in Hge2.
  destruct ((a >? Z.shiftl 1 aw) || (a + sz >? Z.shiftl 1 aw)); [reflexivity|].
  rewrite IH; try assumption; try lia.
  - destruct (Gpio.place aw dw (a + sz) specs); reflexivity.
  - change (a + sz) with (e_stop {| e_start := a; e_stop := a + sz; e_step := 1; e_asg := AR id |}).
    apply (ends_before_app ranges nx); cbn; try assumption; lia.
  - apply Forall_app. split; [eapply Forall_impl; [|exact Hress]; cbn; intros; lia|].
    constructor; [cbn; lia|constructor].
  - apply Forall_app. split.
    + eapply Forall_impl; [|exact Hnames]. cbn. intros nm (b & -> & Hb). exists b. split; [reflexivity|lia].
    + constructor; [|constructor]. exists (id + 1). split; [reflexivity|lia].
Qed.

(* For EVERY geometry: driving the C02 memory-map model the way csr.Builder.as_memory_map drives MemoryMap gives the
   ranges (or the ValueError) that the GPIO model's placement loop gives. *)
Theorem layout_models_agree_all aw dw n : 0 < aw -> 0 < dw -> 0 < n ->
  via_memory_map aw dw n = via_place aw dw n.
Proof.
  intros Haw Hdw Hn. unfold via_memory_map, via_place, new_map.
  cbn [posint nonneg zof]. replace (0 <? aw) with true by lia. replace (0 <? dw) with true by lia.
  cbn [check bind Z.leb]. 
  apply add_all_place; [exact Hdw| |constructor|lia|lia|constructor|constructor].
  unfold Gpio.reg_specs. repeat constructor; cbn [fst]; lia.
Qed.

Example layout_models_agree_sample :
  via_memory_map 5 8 20 = Ok [(0, 8); (8, 12); (12, 16); (16, 24)] /\
  via_memory_map 4 8 20 = Err ValueError /\ via_place 4 8 20 = Err ValueError /\
  via_memory_map 2 32 9 = Ok [(0, 1); (1, 2); (2, 3); (3, 4)].
Proof. vm_compute. repeat split; reflexivity. Qed.
