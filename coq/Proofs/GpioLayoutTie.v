(* C16: the placement loop of Model/Gpio.v (`place`) against the C02 memory-map model driven the way
   csr.Builder.as_memory_map drives the real MemoryMap (Model/MemoryMap.v: new_map, add_resource with
   addr=None, size=reg_size, alignment=ceil_log2(reg_size)).  `place` is proved equal to the documented layout
   for ALL geometries in Proofs/GpioCtor.v (place_spec); the agreement of the two MODELS is cross-checked here by
   evaluation over a bounded grid of geometries (an Example, not a theorem). *)
From Coq Require Import ZArith List Bool.
From Soc Require Import Lib.Bits Lib.Res Model.Gpio.
From Soc Require Model.MemoryMap Model.Mux.
Import ListNotations.
Open Scope Z_scope.

Fixpoint add_all (m : MemoryMap.mmap) (dw id : Z) (specs : list (Z * (bool * bool))) : res (list (Z * Z)) :=
  match specs with
  | [] => Ok []
  | (w, _) :: specs' =>
      let reg_size := (w + dw - 1) / dw in
      match MemoryMap.add_resource m id true (MemoryMap.NTuple [MemoryMap.RStr (id + 1)]) (VInt reg_size) VNone (VInt (ceil_log2 reg_size)) with
      | Ok (m', (s, e)) =>
          match add_all m' dw (id + 1) specs' with
          | Ok l => Ok ((s, e) :: l)
          | Err x => Err x
          end
      | Err x => Err x
      end
  end.

(* Builder.as_memory_map over the four GPIO registers; resource ids 0..3, names ("Mode",) .. ("SetClr",) as the
   distinct non-empty atoms 1..4 *)
Definition via_memory_map (aw dw n : Z) : res (list (Z * Z)) :=
  match MemoryMap.new_map (VInt aw) (VInt dw) (VInt 0) with
  | Ok m0 => add_all m0 dw 0 (reg_specs n)
  | Err x => Err x
  end.

Definition via_place (aw dw n : Z) : res (list (Z * Z)) :=
  match place aw dw 0 (reg_specs n) with
  | Ok regs => Ok (map (fun r => (Mux.r_start r, Mux.r_stop r)) regs)
  | Err x => Err x
  end.

Definition res_eqb (a b : res (list (Z * Z))) : bool :=
  match a, b with
  | Ok l1, Ok l2 => (Nat.eqb (length l1) (length l2)) &&
                    forallb (fun p => (fst (fst p) =? fst (snd p)) && (snd (fst p) =? snd (snd p))) (combine l1 l2)
  | Err x, Err y => exn_code x =? exn_code y
  | _, _ => false
  end.

Definition zrange (lo n : nat) : list Z := map Z.of_nat (seq lo n).

(* pins 1..70, data widths 8..64 in steps of 8, address widths 1..8: 4480 geometries, refusals included *)
Example layout_models_agree :
  forallb (fun n => forallb (fun d => forallb (fun aw => res_eqb (via_memory_map aw (8 * d) n) (via_place aw (8 * d) n))
                                              (zrange 1 8)) (zrange 1 8)) (zrange 1 70) = true.
Proof. vm_compute. reflexivity. Qed.

Example layout_models_agree_sample :
  via_memory_map 5 8 20 = Ok [(0, 8); (8, 12); (12, 16); (16, 24)] /\
  via_memory_map 4 8 20 = Err ValueError /\ via_place 4 8 20 = Err ValueError /\
  via_memory_map 2 32 9 = Ok [(0, 1); (1, 2); (2, 3); (3, 4)].
Proof. vm_compute. repeat split; reflexivity. Qed.
