(* C01, rung 3 (d): a held Wishbone transfer through a bridge, at the REGISTERS of the CSR tree below it.
   bridge_transfer (Proofs/HierCycle3.v) gives the CSR-bus trace; C06's tree_equals_flat (Proofs/CsrTreeRegs.v:
   tree_ports_flat / tree_strobes_flat) turns it into the element strobes of every register of the tree, in
   terms of the addresses the tree's root map reports: a register gets r_stb in the cycle its first chunk is
   addressed, w_stb in the cycle after its last chunk is written, and nothing else is strobed anywhere. *)
From Coq Require Import ZArith List Bool Lia ZifyBool Arith.
From Soc Require Import Lib.Res Lib.Bits Model.MemoryMap Model.Hierarchy Proofs.HierCsr Proofs.HierWf
  Proofs.HierInert Proofs.HierWb Proofs.HierCycle1 Proofs.HierCycle2 Proofs.HierCycle3 Proofs.CsrTreeFlat
  Proofs.CsrTreeRegs.
From Soc Require Lib.CsrPattern Model.Mux Model.CsrDecoder Model.WbDecoder Model.WbCsrBridge Model.Sram
  Proofs.WbDecoder Proofs.Sram Proofs.WbCsrBridge.
Import ListNotations.
Open Scope Z_scope.

Local Opaque Z.pow.

(* the CSR address of granule j of the relayed request `so`, and the strobes a register reported at
   [i_start, i_end) receives in cycle t0+j of the transfer *)
Definition xf_addr (bc : B.cfg) (so : D.sout) (j : Z) : Z := trunc (B.c_caw bc) (D.o_adr so * B.ratio bc + j).
Definition xf_rstb (bc : B.cfg) (so : D.sout) (j : nat) (i : info) : bool :=
  (Z.of_nat j <? B.ratio bc) && Z.testbit (D.o_sel so) (Z.of_nat j) && negb (D.o_we so) &&
  (xf_addr bc so (Z.of_nat j) =? i_start i).
Definition xf_wstb (bc : B.cfg) (so : D.sout) (j : nat) (i : info) : bool :=
  (1 <=? Z.of_nat j) && (Z.of_nat j <=? B.ratio bc) && Z.testbit (D.o_sel so) (Z.of_nat j - 1) && D.o_we so &&
  (xf_addr bc so (Z.of_nat j - 1) =? i_end i - 1).

Theorem bridge_transfer_strobes h k bc ch s c mc lc : wbhw_wf h -> BP.wf bc ->
  nth_error (wh_subs h) k = Some (HBridge bc ch) -> nth_error (D.c_subs (wh_cfg h)) k = Some s ->
  csr_dom c -> csr_widths c -> csr_map c = Ok mc -> csr_hw c = Ok ch -> all_resources mc = Ok lc ->
  B.c_caw bc = csr_aw c ->
  forall pre q rvs post, length rvs = (BP.nratio bc + 2)%nat ->
  D.cyc q = true -> D.stb q = true -> D.selected (wh_cfg h) (D.adr q) = Some k ->
  Forall ack_low (wb_after h (map winit (wh_subs h)) pre) ->
  (forall sk, nth_error (wb_after h (map winit (wh_subs h)) pre) k = Some sk -> sub_idle sk) ->
  let R := BP.nratio bc in
  let tr := pre ++ held q rvs ++ post in
  let t0 := length pre in
  let so := sub_req (wh_cfg h) k s q in
  forall j, (j < R + 2)%nat ->
  exists o L1 los L2,
    nth_error (wb_run h (map winit (wh_subs h)) tr) (t0 + j)%nat = Some o /\
    wo_ack o = (j =? R + 1)%nat /\
    (forall x, In x (wo_srams o) -> snd (fst x) = false) /\
    wo_leaves o = L1 ++ los ++ L2 /\
    (* below the other bridges: nothing *)
    (forall lo, In lo L1 \/ In lo L2 -> lo_rstb lo = false /\ ((1 <= j)%nat -> lo_wstb lo = false)) /\
    (* below this bridge: every port is a reported register's, with exactly these strobes *)
    (forall lo, In lo los -> exists i L kk r, In i lc /\ reg_at (csr_aw c) ch i L kk r /\ lo_id lo = i_res i /\
       lo_rstb lo = Mux.r_rd r && xf_rstb bc so j i /\ lo_wstb lo = Mux.r_wr r && xf_wstb bc so j i) /\
    (* and every reported register has its port *)
    (forall i, In i lc -> exists L kk r lo, reg_at (csr_aw c) ch i L kk r /\ In lo los /\ lo_id lo = i_res i /\
       lo_rstb lo = Mux.r_rd r && xf_rstb bc so j i /\ lo_wstb lo = Mux.r_wr r && xf_wstb bc so j i).
Proof.
  intros Hwf Hbc Hh Hs Hd Hw Hm Hhw Hl Hcaw pre q rvs post Hrvs Hcyc Hstb Hsel Hlow Hidle R tr t0 so j Hj.
  destruct (bridge_transfer h k bc ch s Hwf Hbc Hh Hs pre q rvs post Hrvs Hcyc Hstb Hsel Hlow Hidle)
    as (Hrange & Hclen & Hgran & Hend & Hbefore & (P & HP & Hcyc_j) & _).
  fold R tr t0 so in Hrange, Hclen, Hgran, Hend, Hbefore, Hcyc_j.
  set (ctr := br_ctr h k bc ch s tr) in *.
  rewrite Hcaw in Hrange.
  pose proof (tree_ok_intro c mc ch lc Hd Hw Hm Hhw Hl) as Hok.
  pose proof (BP.nratio_eq bc Hbc) as HR. fold R in HR.
  destruct (Hcyc_j j Hj) as (o & rd & los & L1 & L2 & C1 & C2 & C3 & C4 & C5 & C6 & _).
  (* the bus in cycle t0+j *)
  assert (Hbus : exists b, nth_error ctr (t0 + j)%nat = Some (b, nth j rvs []) /\
            forall x, CD.r_stb b && (CD.addr b =? x) =
                      (Z.of_nat j <? B.ratio bc) && Z.testbit (D.o_sel so) (Z.of_nat j) && negb (D.o_we so) &&
                      (xf_addr bc so (Z.of_nat j) =? x)).
  { destruct (Nat.lt_ge_cases j R) as [Hlt|Hge].
    - eexists. split; [exact (Hgran j Hlt)|]. intros x. cbn [CD.r_stb CD.addr].
      destruct (Z.ltb_spec (Z.of_nat j) (B.ratio bc)); [|lia]. reflexivity.
    - destruct (Hend j ltac:(lia)) as (b & Hb & Hr0 & _). exists b. split; [exact Hb|]. intros x. rewrite Hr0.
      destruct (Z.ltb_spec (Z.of_nat j) (B.ratio bc)); [lia|]. reflexivity. }
  destruct Hbus as (b & Hb & Hbr).
  (* the last write before cycle t0+j *)
  assert (Hlw : forall x, last_write (firstn (t0 + j) ctr) x =
            (1 <=? Z.of_nat j) && (Z.of_nat j <=? B.ratio bc) && Z.testbit (D.o_sel so) (Z.of_nat j - 1) && D.o_we so &&
            (xf_addr bc so (Z.of_nat j - 1) =? x)).
  { intros x. destruct j as [|j'].
    - rewrite Nat.add_0_r. cbn [Z.of_nat Z.leb]. cbn [andb].
      destruct t0 as [|t'] eqn:Et; [reflexivity|].
      assert (Hlt : (t' < length ctr)%nat).
      { rewrite Hclen. unfold tr. rewrite !app_length. fold t0. lia. }
      destruct (nth_error ctr t') as [[b' rv']|] eqn:Eb; [|apply nth_error_None in Eb; lia].
      rewrite (last_write_S ctr t' b' rv' x Eb).
      destruct (Hbefore t' b' rv' eq_refl Eb) as [_ ->]. reflexivity.
    - replace (t0 + S j')%nat with (S (t0 + j')) by lia.
      replace (Z.of_nat (S j') - 1) with (Z.of_nat j') by lia.
      destruct (Z.leb_spec 1 (Z.of_nat (S j'))); [|lia]. cbn [andb].
      destruct (Nat.lt_ge_cases j' R) as [Hlt|Hge].
      + rewrite (last_write_S ctr _ _ _ x (Hgran j' Hlt)). cbn [CD.w_stb CD.addr].
        destruct (Z.leb_spec (Z.of_nat (S j')) (B.ratio bc)); [|lia]. reflexivity.
      + destruct (Hend j' ltac:(lia)) as (b' & Hb' & _ & Hw0).
        rewrite (last_write_S ctr _ _ _ x Hb'), Hw0.
        destruct (Z.leb_spec (Z.of_nat (S j')) (B.ratio bc)); [lia|]. reflexivity. }
  exists o, L1, los, L2.
  split; [exact C1|]. split; [exact C3|]. split; [rewrite C4; exact HP|]. split; [exact C5|]. split; [exact C6|].
  split.
  - intros lo Hlo.
    destruct (tree_ports_flat c ch lc Hok ctr (t0 + j) b _ rd los Hrange Hb C2 lo Hlo) as (i & L & kk & r & Hi & Hreg & Hid & Hr & Hws).
    exists i, L, kk, r. split; [exact Hi|]. split; [exact Hreg|]. split; [exact Hid|].
    unfold xf_rstb, xf_wstb. rewrite Hr, Hws, Hlw, <- Hbr. split; [symmetry; apply andb_assoc|reflexivity].
  - intros i Hi. destruct (tree_strobes_flat c ch lc Hok i Hi) as (L & kk & r & Hreg & Hall).
    destruct (Hall ctr Hrange (t0 + j)%nat b _ Hb) as (rd' & los' & lo & Hrun & Hlo & Hid & Hr & Hws).
    rewrite C2 in Hrun. injection Hrun as <- <-.
    exists L, kk, r, lo. split; [exact Hreg|]. split; [exact Hlo|]. split; [exact Hid|].
    unfold xf_rstb, xf_wstb. rewrite Hr, Hws, Hlw, <- Hbr. split; [symmetry; apply andb_assoc|reflexivity].
Qed.
