(* The shadow address hash of csr.Multiplexer: arithmetic reading of the mask expression,
   encode/decode round trip, injectivity within one register — for every shadow size S >= R. *)
From Coq Require Import ZArith List Bool Lia.
From Soc Require Import Lib.Bits Model.Mux.
Import ListNotations.
Open Scope Z_scope.

Lemma ceil_log2_nonneg n : 0 <= ceil_log2 n.
Proof. unfold ceil_log2. destruct (n <=? 1); [lia | apply Z.log2_up_nonneg]. Qed.

Lemma ceil_log2_ge n : 0 < n -> n <= 2 ^ ceil_log2 n.
Proof.
  intros H. unfold ceil_log2. destruct (Z.leb_spec n 1).
  - simpl. lia.
  - apply Z.log2_up_spec. lia.
Qed.

Lemma reg_size_pos r : 0 < reg_size r.
Proof. unfold reg_size. apply pow2_pos, ceil_log2_nonneg. Qed.

Lemma reg_len_le_size r : 0 < reg_len r -> reg_len r <= reg_size r.
Proof. intros. unfold reg_size. apply ceil_log2_ge; auto. Qed.

(* generic form over exponents *)
Definition decode_g (S R start addr : Z) : Z :=
  Z.lor (Z.land (Z.land start (S - 1)) (Z.lnot (R - 1))) (Z.land addr (R - 1)).
Definition encode_g (R start off : Z) : Z := start + ((off - start) mod R).

Lemma decode_arith s r start addr :
  0 <= r <= s ->
  decode_g (2^s) (2^r) start addr = ((start mod 2^s) / 2^r) * 2^r + addr mod 2^r.
Proof.
  intros Hrs. unfold decode_g.
  rewrite !land_pow2m1 by lia.
  replace (2^r - 1) with (Z.ones r) by (rewrite Z.ones_equiv; lia).
  rewrite <- Z.ldiff_land. rewrite Z.ldiff_ones_r by lia.
  rewrite Z.shiftr_div_pow2, Z.shiftl_mul_pow2 by lia.
  set (A := start mod 2^s / 2^r * 2^r). set (B := addr mod 2^r).
  assert (HB: 0 <= B < 2^r) by (apply Z.mod_pos_bound; lia).
  rewrite <- Z.lxor_lor, <- Z.add_nocarry_lxor; auto.
  all: apply Z.bits_inj'; intros n Hn; rewrite Z.land_spec, Z.bits_0;
       destruct (Z.ltb_spec n r).
  all: try (unfold A; rewrite Z.mul_pow2_bits_low by lia; reflexivity).
  all: unfold B; rewrite Z.mod_pow2_bits_high by lia; apply andb_false_r.
Qed.

Lemma encode_decode_g s r start addr :
  0 <= r <= s -> start <= addr < start + 2^r ->
  encode_g (2^r) start (decode_g (2^s) (2^r) start addr) = addr.
Proof.
  intros Hrs Ha. rewrite decode_arith by auto. unfold encode_g.
  assert (0 < 2^r) by (apply Z.pow_pos_nonneg; lia).
  replace (start mod 2^s / 2^r * 2^r + addr mod 2^r - start)
    with (addr mod 2^r - start + (start mod 2^s / 2^r) * 2^r) by ring.
  rewrite Z.mod_add by lia.
  rewrite Zminus_mod_idemp_l.
  rewrite Z.mod_small; lia.
Qed.

(* instantiated for a register of the model, for a shadow size 2^s that is at least the register's *)
Lemma encode_decode s r a : ceil_log2 (reg_len r) <= s -> 0 < reg_len r ->
  r_start r <= a < r_stop r ->
  encode r (decode (2^s) r a) = a.
Proof.
  intros Hs Hl Ha. unfold encode, decode, reg_size.
  pose proof (ceil_log2_nonneg (reg_len r)).
  pose proof (ceil_log2_ge (reg_len r) Hl).
  apply (encode_decode_g s (ceil_log2 (reg_len r)) (r_start r) a); [lia|].
  unfold reg_len in *. lia.
Qed.

Lemma decode_inj s r a b : ceil_log2 (reg_len r) <= s -> 0 < reg_len r ->
  r_start r <= a < r_stop r -> r_start r <= b < r_stop r ->
  decode (2^s) r a = decode (2^s) r b -> a = b.
Proof.
  intros Hs Hl Ha Hb He.
  rewrite <- (encode_decode s r a), <- (encode_decode s r b); auto. rewrite He. reflexivity.
Qed.

(* encode always lands in the register's size-aligned window starting at start *)
Lemma encode_range r o : r_start r <= encode r o < r_start r + reg_size r.
Proof.
  unfold encode. pose proof (reg_size_pos r).
  pose proof (Z.mod_pos_bound (o - r_start r) (reg_size r) H). lia.
Qed.

(* once the shadow covers every bit of start, a larger shadow decodes identically *)
Lemma decode_stable s s' r a : 0 <= ceil_log2 (reg_len r) <= s -> s <= s' -> 0 <= r_start r < 2^s ->
  decode (2^s') r a = decode (2^s) r a.
Proof.
  intros Hs Hs' Hst. unfold decode, reg_size.
  change (decode_g (2^s') (2^ceil_log2 (reg_len r)) (r_start r) a =
          decode_g (2^s) (2^ceil_log2 (reg_len r)) (r_start r) a).
  rewrite !decode_arith by lia.
  assert (2^s <= 2^s') by (apply Z.pow_le_mono_r; lia).
  rewrite (Z.mod_small (r_start r) (2^s')), (Z.mod_small (r_start r) (2^s)) by lia. reflexivity.
Qed.
