(* Fixed vocabulary of the constructor translator (harness/translate11.py -> Gen/PeriphGen.v): a universal
   Python value `pv`, the SPECIFIED semantics of the Python operators / builtins the translated constructors use
   on it, and the interface (`world`) through which every object of a class that is NOT translated (MemoryMap,
   csr.Builder, csr.Bridge, MemoryData, Signature constructors, the wiring.Component base class, ...) is reached.
   Nothing here is translated from /repo; in the same sense as bisect in Lib/PyList.v these are the trusted
   reading of Python.  Definitions only, plus a few computation lemmas used by Gen/TiePeriph.v. *)
From Coq Require Import String ZArith List Bool Lia.
From Soc Require Import Lib.Res.
Import ListNotations.
Open Scope Z_scope.

(* ---------------------------------------------------------------- values *)

Inductive pv :=
| YInt (z : Z)
| YFloat (z : Z)                   (* a float numerically equal to the integer z (8.0); other floats are YBad *)
| YBool (b : bool)
| YNone
| YBad                             (* any other object that is no number: unequal to every number, arithmetic and
                                      ordering with it raise TypeError, truthy *)
| YStr (s : string)
| YTuple (l : list pv)
| YList (l : list pv)
| YDict (l : list (pv * pv))       (* insertion order; never mutated after it was built *)
| YRange (a b c : Z)               (* range(a, b, c) *)
| YCon (f : string) (args : list pv) (kw : list (string * pv))
                                   (* immutable descriptor made by a constructor without side effect:
                                      unsigned(8), In(x), csr.Field(cls, ...), a class object with its keywords *)
| YGlobal (s : string)             (* a module-level name that is not translated (foreign class / function) *)
| YObj (cls : string) (id : nat)   (* an object with identity: id = position of the event that created it *)
| YAttr (o : pv) (a : string).     (* attribute of an object which the world leaves uninterpreted *)

(* ---------------------------------------------------------------- the trace of foreign effects *)

Inductive event :=
| EvNew (cls : string)                                              (* allocation of an instance of a translated class *)
| EvCall (f : pv) (args : list pv) (kw : list (string * pv)) (r : pv)   (* a call that is not translated, its result *)
| EvSet (o : pv) (a : string) (v : pv).                             (* o.a = v *)

(* newest event FIRST (so that ids are `length` and lookups of the latest store are a plain search) *)
Definition trace := list event.
Definition events (t : trace) : list event := rev t.

(* what the objects of foreign classes do: may raise, may look at everything that happened so far *)
Record world := {
  w_call : trace -> pv -> list pv -> list (string * pv) -> res pv;
  w_get : trace -> pv -> string -> res pv;
  w_set : trace -> pv -> string -> pv -> res unit;
  w_isinstance : trace -> pv -> pv -> res bool
}.

Definition fcall (W : world) (t : trace) (f : pv) (args : list pv) (kw : list (string * pv)) : res (pv * trace) :=
  let! r := w_call W t f args kw in Ok (r, EvCall f args kw r :: t).
Definition fset (W : world) (t : trace) (o : pv) (a : string) (v : pv) : res trace :=
  let! _ := w_set W t o a v in Ok (EvSet o a v :: t).
Definition fnew (t : trace) (cls : string) : pv * trace := (YObj cls (List.length t), EvNew cls :: t).

(* ---------------------------------------------------------------- identity *)

(* `is` between references (objects, attributes of objects, globals) *)
Fixpoint ref_eqb (a b : pv) : bool :=
  match a, b with
  | YObj c n, YObj d m => String.eqb c d && Nat.eqb n m
  | YAttr o x, YAttr p y => ref_eqb o p && String.eqb x y
  | YGlobal s, YGlobal t => String.eqb s t
  | _, _ => false
  end.

Fixpoint kw_get (k : string) (kw : list (string * pv)) : option pv :=
  match kw with
  | [] => None
  | (k', v) :: kw' => if String.eqb k' k then Some v else kw_get k kw'
  end.

(* the latest `o.a = v` *)
Fixpoint last_set (t : trace) (o : pv) (a : string) : option pv :=
  match t with
  | [] => None
  | EvSet o' a' v :: t' => if ref_eqb o' o && String.eqb a' a then Some v else last_set t' o a
  | _ :: t' => last_set t' o a
  end.

(* the call that returned the object r *)
Fixpoint call_of (t : trace) (r : pv) : option (pv * list pv * list (string * pv)) :=
  match t with
  | [] => None
  | EvCall f args kw r' :: t' => if ref_eqb r' r then Some (f, args, kw) else call_of t' r
  | _ :: t' => call_of t' r
  end.

(* every call of the function / method f, oldest first *)
Fixpoint calls_of (t : trace) (f : pv) : list (list pv * list (string * pv)) :=
  match t with
  | [] => []
  | EvCall f' args kw _ :: t' => if ref_eqb f' f then calls_of t' f ++ [(args, kw)] else calls_of t' f
  | _ :: t' => calls_of t' f
  end.

(* ---------------------------------------------------------------- numbers *)

(* (value, is a float); bool is an int in Python *)
Definition num (v : pv) : option (Z * bool) :=
  match v with
  | YInt z => Some (z, false)
  | YFloat z => Some (z, true)
  | YBool b => Some (Z.b2z b, false)
  | _ => None
  end.

Definition mknum (z : Z) (fl : bool) : pv := if fl then YFloat z else YInt z.

Definition py_is_none (v : pv) : bool := match v with YNone => true | _ => false end.
Definition py_is_int (v : pv) : bool := match v with YInt _ | YBool _ => true | _ => false end.
Definition py_is_str (v : pv) : bool := match v with YStr _ => true | _ => false end.
Definition py_is_bool (v : pv) : bool := match v with YBool _ => true | _ => false end.
Definition py_is_range (v : pv) : bool := match v with YRange _ _ _ => true | _ => false end.
Definition py_is_dict (v : pv) : bool := match v with YDict _ => true | _ => false end.
Definition py_is_list (v : pv) : bool := match v with YList _ => true | _ => false end.
Definition py_is_tuple (v : pv) : bool := match v with YTuple _ => true | _ => false end.

Inductive arith := AAdd | ASub | AMul | AFloorDiv | AMod | AAnd | AOr | AXor | ALShift | ARShift.

(* a op b.  Operand combinations Python accepts but this file does not model (str * int, ...) are OtherError,
   never a value; numbers with anything else are TypeError. *)
Definition py_arith (op : arith) (a b : pv) : res pv :=
  match num a, num b with
  | Some (x, fa), Some (y, fb) =>
      let fl := fa || fb in
      match op with
      | AAdd => Ok (mknum (x + y) fl)
      | ASub => Ok (mknum (x - y) fl)
      | AMul => Ok (mknum (x * y) fl)
      | AFloorDiv => if y =? 0 then Err OtherError else Ok (mknum (x / y) fl)
      | AMod => if y =? 0 then Err OtherError else Ok (mknum (x mod y) fl)
      | AAnd => if fl then Err TypeError else Ok (YInt (Z.land x y))
      | AOr => if fl then Err TypeError else Ok (YInt (Z.lor x y))
      | AXor => if fl then Err TypeError else Ok (YInt (Z.lxor x y))
      | ALShift => if fl then Err TypeError else if y <? 0 then Err ValueError else Ok (YInt (Z.shiftl x y))
      | ARShift => if fl then Err TypeError else if y <? 0 then Err ValueError else Ok (YInt (Z.shiftr x y))
      end
  | Some _, None | None, Some _ => Err TypeError
  | None, None =>
      match a, b with
      | YNone, _ | _, YNone | YBad, _ | _, YBad => Err TypeError
      | _, _ => Err OtherError
      end
  end.

Definition py_neg (a : pv) : res pv :=
  match num a with Some (x, fl) => Ok (mknum (- x) fl) | None => Err TypeError end.
Definition py_invert (a : pv) : res pv :=
  match num a with Some (x, false) => Ok (YInt (Z.lnot x)) | _ => Err TypeError end.

Inductive cmp := CLt | CLe | CGt | CGe.

Definition py_cmp (op : cmp) (a b : pv) : res bool :=
  match num a, num b with
  | Some (x, _), Some (y, _) =>
      Ok (match op with CLt => x <? y | CLe => x <=? y | CGt => x >? y | CGe => x >=? y end)
  | Some _, None | None, Some _ => Err TypeError
  | None, None =>
      match a, b with
      | YNone, _ | _, YNone | YBad, _ | _, YBad => Err TypeError
      | _, _ => Err OtherError
      end
  end.

(* a == b for scalars; comparing composite values is not modelled (OtherError), references compare by identity *)
Definition py_eq (a b : pv) : res bool :=
  match num a, num b with
  | Some (x, _), Some (y, _) => Ok (x =? y)
  | Some _, None | None, Some _ =>
      match a, b with
      | YTuple _, _ | YList _, _ | YDict _, _ | _, YTuple _ | _, YList _ | _, YDict _ => Ok false
      | _, _ => Ok false
      end
  | None, None =>
      match a, b with
      | YNone, YNone => Ok true
      | YStr s, YStr t => Ok (String.eqb s t)
      | YNone, _ | _, YNone | YStr _, _ | _, YStr _ => Ok false
      | YBad, _ | _, YBad => Ok false
      | (YObj _ _ | YAttr _ _ | YGlobal _), (YObj _ _ | YAttr _ _ | YGlobal _) => Ok (ref_eqb a b)
      | _, _ => Err OtherError
      end
  end.

Definition py_truth (v : pv) : res bool :=
  match v with
  | YInt z | YFloat z => Ok (negb (z =? 0))
  | YBool b => Ok b
  | YNone => Ok false
  | YStr s => Ok (negb (String.eqb s ""))
  | YTuple l | YList l => Ok (match l with [] => false | _ => true end)
  | YDict l => Ok (match l with [] => false | _ => true end)
  | YRange a b c => Ok (if 0 <? c then a <? b else b <? a)
  | YBad | YCon _ _ _ | YGlobal _ | YObj _ _ | YAttr _ _ => Ok true
  end.

(* ---------------------------------------------------------------- range *)

Definition range_len (a b c : Z) : Z :=
  if 0 <? c then Z.max 0 ((b - a + c - 1) / c)
  else if c <? 0 then Z.max 0 ((a - b - c - 1) / (- c))
  else 0.

Definition range_mem (a b c z : Z) : bool :=
  if 0 <? c then (a <=? z) && (z <? b) && ((z - a) mod c =? 0)
  else if c <? 0 then (b <? z) && (z <=? a) && ((a - z) mod (- c) =? 0)
  else false.

Definition range_items (a b c : Z) : list pv :=
  map (fun i => YInt (a + Z.of_nat i * c)) (seq 0 (Z.to_nat (range_len a b c))).

Definition index_of (v : pv) : res Z :=       (* operator.index *)
  match v with YInt z => Ok z | YBool b => Ok (Z.b2z b) | _ => Err TypeError end.

Definition py_range (args : list pv) : res pv :=
  match args with
  | [b] => let! b := index_of b in Ok (YRange 0 b 1)
  | [a; b] => let! a := index_of a in let! b := index_of b in Ok (YRange a b 1)
  | [a; b; c] => let! a := index_of a in let! b := index_of b in let! c := index_of c in
                 if c =? 0 then Err ValueError else Ok (YRange a b c)
  | _ => Err TypeError
  end.

(* ---------------------------------------------------------------- containers *)

Fixpoint any_eq (x : pv) (l : list pv) : res bool :=
  match l with
  | [] => Ok false
  | y :: l' => let! e := py_eq x y in if e then Ok true else any_eq x l'
  end.

(* x in c *)
Definition py_in (x c : pv) : res bool :=
  match c with
  | YTuple l | YList l => any_eq x l
  | YDict l => any_eq x (map fst l)
  | YRange a b s => match num x with Some (z, _) => Ok (range_mem a b s z) | None => Ok false end
  | _ => Err TypeError
  end.

Definition py_len (c : pv) : res pv :=
  match c with
  | YTuple l | YList l => Ok (YInt (Z.of_nat (List.length l)))
  | YDict l => Ok (YInt (Z.of_nat (List.length l)))
  | YStr s => Ok (YInt (Z.of_nat (String.length s)))
  | YRange a b s => Ok (YInt (range_len a b s))
  | _ => Err TypeError
  end.

(* iter(c), fully consumed *)
Definition py_iter (c : pv) : res (list pv) :=
  match c with
  | YTuple l | YList l => Ok l
  | YDict l => Ok (map fst l)
  | YRange a b s => Ok (range_items a b s)
  | _ => Err TypeError
  end.

Fixpoint dict_lookup (k : pv) (l : list (pv * pv)) : res pv :=
  match l with
  | [] => Err KeyError
  | (k', v) :: l' => let! e := py_eq k' k in if e then Ok v else dict_lookup k l'
  end.

(* c[i] *)
Definition py_getitem (c i : pv) : res pv :=
  match c with
  | YTuple l | YList l =>
      let! k := index_of i in
      let n := Z.of_nat (List.length l) in
      let k' := if k <? 0 then k + n else k in
      if (k' <? 0) || (n <=? k') then Err OtherError      (* IndexError *)
      else match nth_error l (Z.to_nat k') with Some v => Ok v | None => Err OtherError end
  | YDict l => dict_lookup i l
  | _ => Err TypeError
  end.

(* max(a, b) / min(a, b): the first of the extremal arguments *)
Definition py_max (a b : pv) : res pv := let! g := py_cmp CGt b a in Ok (if g then b else a).
Definition py_min (a b : pv) : res pv := let! g := py_cmp CLt b a in Ok (if g then b else a).

Definition py_bool (v : pv) : res pv := let! t := py_truth v in Ok (YBool t).

(* ---------------------------------------------------------------- amaranth.utils (specified, not translated) *)

Definition bit_length (z : Z) : Z := if z <=? 0 then 0 else Z.log2 z + 1.

(* exact_log2(n): n = operator.index(n); ValueError unless a power of two; (n - 1).bit_length() *)
Definition py_exact_log2 (v : pv) : res pv :=
  let! n := index_of v in
  if (n <=? 0) || negb (Z.land n (n - 1) =? 0) then Err ValueError else Ok (YInt (bit_length (n - 1))).

(* ceil_log2(n): n = operator.index(n); ValueError if negative; (n - 1).bit_length() *)
Definition py_ceil_log2 (v : pv) : res pv :=
  let! n := index_of v in
  if n <? 0 then Err ValueError else Ok (YInt (bit_length (n - 1))).

(* ---------------------------------------------------------------- helpers of the generated code *)

(* [f(x) for x in items] with a body that may raise *)
Definition py_listcomp (f : pv -> res pv) (items : list pv) : res pv :=
  let! l := mapR f items in Ok (YList l).

(* ---------------------------------------------------------------- small lemmas *)

Lemma mapR_const {X Y} (y : Y) : forall l : list X, mapR (fun _ => Ok y) l = Ok (repeat y (List.length l)).
Proof. induction l as [|x l IH]; cbn [mapR repeat List.length]; [reflexivity|]. rewrite IH. reflexivity. Qed.

Lemma range_items_length a b c : List.length (range_items a b c) = Z.to_nat (range_len a b c).
Proof. unfold range_items. rewrite map_length, seq_length. reflexivity. Qed.

Lemma range_len_simple n : range_len 0 n 1 = Z.max 0 n.
Proof. unfold range_len. cbn [Z.ltb Z.compare]. rewrite Z.div_1_r. f_equal. lia. Qed.
