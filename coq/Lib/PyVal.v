(* Fixed vocabulary of the constructor translator (harness/translate11.py -> Gen/PeriphGen.v): a universal
   Python value `pv`, the SPECIFIED semantics of the Python operators / builtins the translated constructors use
   on it, and the interface (`world`) through which every object of a class that is NOT translated (MemoryMap,
   csr.Builder, csr.Bridge, MemoryData, Signature constructors, the wiring.Component base class, ...) is reached.
   Nothing here is translated from /repo; in the same sense as bisect in Lib/PyList.v these are the trusted
   reading of Python.  Definitions only, plus a few computation lemmas used by Gen/TiePeriph.v. *)
From Coq Require Import String ZArith List Bool Lia.
From Soc Require Import Lib.Res.
Import ListNotations.
Open Scope Z_scope.

(* ---------------------------------------------------------------- values *)

Inductive pv :=
| YInt (z : Z)
| YFloat (z : Z)                   (* a float numerically equal to the integer z (8.0); other floats are YBad *)
| YBool (b : bool)
| YNone
| YBad                             (* any other object that is no number: unequal to every number, arithmetic and
                                      ordering with it raise TypeError, truthy *)
| YStr (s : string)
| YTuple (l : list pv)
| YList (l : list pv)
| YDict (l : list (pv * pv))       (* insertion order; never mutated after it was built *)
| YRange (a b c : Z)               (* range(a, b, c) *)
| YCon (f : string) (args : list pv) (kw : list (string * pv))
                                   (* immutable descriptor made by a constructor without side effect:
                                      unsigned(8), In(x), csr.Field(cls, ...), a class object with its keywords *)
| YGlobal (s : string)             (* a module-level name that is not translated (foreign class / function) *)
| YObj (cls : string) (id : nat)   (* an object with identity: id = position of the event that created it *)
| YAttr (o : pv) (a : string).     (* attribute of an object which the world leaves uninterpreted *)

(* ---------------------------------------------------------------- computations *)

(* What a piece of translated Python does: return, raise, or depend on a boolean.  `Branch` is the ONLY way a
   computation may depend on a boolean that proofs cannot evaluate (a comparison of symbolic integers): cbind
   pushes the continuation into both arms, so evaluating a generated constructor on symbolic arguments yields its
   whole decision tree in one normalisation, and `run_comp` reads the tree as nested if-then-else. *)
Inductive comp (A : Type) :=
| Ret (a : A)
| Raise (e : exn)
| Branch (c : bool) (t f : comp A).
Arguments Ret {A} a.
Arguments Raise {A} e.
Arguments Branch {A} c t f.

Fixpoint cbind {A B} (m : comp A) (k : A -> comp B) : comp B :=
  match m with
  | Ret a => k a
  | Raise e => Raise e
  | Branch c t f => Branch c (cbind t k) (cbind f k)
  end.

Notation "'let*' x := e 'in' k" := (cbind e (fun x => k))
  (at level 200, x binder, e at level 100, k at level 200, right associativity).

Fixpoint run_comp {A} (m : comp A) : res A :=
  match m with
  | Ret a => Ok a
  | Raise e => Err e
  | Branch c t f => if c then run_comp t else run_comp f
  end.

(* ---------------------------------------------------------------- the trace of foreign effects *)

Inductive event :=
| EvNew (cls : string)                                              (* allocation of an instance of a translated class *)
| EvCall (f : pv) (args : list pv) (kw : list (string * pv)) (r : pv)   (* a call that is not translated, its result *)
| EvSet (o : pv) (a : string) (v : pv).                             (* o.a = v *)

(* newest event FIRST (so that ids are the length and lookups of the latest store are a plain search) *)
Definition trace := list event.
Definition events (t : trace) : list event := rev t.

(* what the objects of foreign classes do: may raise, may look at everything that happened so far *)
Record world := {
  w_call : trace -> pv -> list pv -> list (string * pv) -> comp pv;
  w_get : trace -> pv -> string -> comp pv;
  w_set : trace -> pv -> string -> pv -> comp unit;
  w_isinstance : trace -> pv -> pv -> comp bool
}.

(* number of events so far = the id of the next object *)
Fixpoint tlen (t : trace) : nat := match t with [] => O | _ :: t' => S (tlen t') end.

Definition fcall (W : world) (t : trace) (f : pv) (args : list pv) (kw : list (string * pv)) : comp (pv * trace) :=
  let* r := w_call W t f args kw in Ret (r, EvCall f args kw r :: t).
Definition fset (W : world) (t : trace) (o : pv) (a : string) (v : pv) : comp trace :=
  let* _ := w_set W t o a v in Ret (EvSet o a v :: t).
Definition fnew (t : trace) (cls : string) : pv * trace := (YObj cls (tlen t), EvNew cls :: t).

(* ---------------------------------------------------------------- identity *)

(* `is` between references (objects, attributes of objects, globals) *)
Fixpoint ref_eqb (a b : pv) : bool :=
  match a, b with
  | YObj c n, YObj d m => if String.eqb c d then Nat.eqb n m else false
  | YAttr o x, YAttr p y => if ref_eqb o p then String.eqb x y else false
  | YGlobal s, YGlobal t => String.eqb s t
  | _, _ => false
  end.

Fixpoint kw_get (k : string) (kw : list (string * pv)) : option pv :=
  match kw with
  | [] => None
  | (k', v) :: kw' => if String.eqb k' k then Some v else kw_get k kw'
  end.

(* the latest `o.a = v` *)
Fixpoint last_set (t : trace) (o : pv) (a : string) : option pv :=
  match t with
  | [] => None
  | EvSet o' a' v :: t' => if (if ref_eqb o' o then String.eqb a' a else false) then Some v else last_set t' o a
  | _ :: t' => last_set t' o a
  end.

(* the call that returned the object r *)
Fixpoint call_of (t : trace) (r : pv) : option (pv * list pv * list (string * pv)) :=
  match t with
  | [] => None
  | EvCall f args kw r' :: t' => if ref_eqb r' r then Some (f, args, kw) else call_of t' r
  | _ :: t' => call_of t' r
  end.

(* every call of the function / method f, oldest first *)
Fixpoint calls_of (t : trace) (f : pv) : list (list pv * list (string * pv)) :=
  match t with
  | [] => []
  | EvCall f' args kw _ :: t' => if ref_eqb f' f then calls_of t' f ++ [(args, kw)] else calls_of t' f
  | _ :: t' => calls_of t' f
  end.

(* ---------------------------------------------------------------- numbers *)

(* (value, is a float); bool is an int in Python *)
Definition num (v : pv) : option (Z * bool) :=
  match v with
  | YInt z => Some (z, false)
  | YFloat z => Some (z, true)
  | YBool b => Some (Z.b2z b, false)
  | _ => None
  end.

Definition mknum (z : Z) (fl : bool) : pv := if fl then YFloat z else YInt z.

Definition py_is_none (v : pv) : bool := match v with YNone => true | _ => false end.
Definition py_is_int (v : pv) : bool := match v with YInt _ | YBool _ => true | _ => false end.
Definition py_is_str (v : pv) : bool := match v with YStr _ => true | _ => false end.
Definition py_is_bool (v : pv) : bool := match v with YBool _ => true | _ => false end.
Definition py_is_range (v : pv) : bool := match v with YRange _ _ _ => true | _ => false end.
Definition py_is_dict (v : pv) : bool := match v with YDict _ => true | _ => false end.
Definition py_is_list (v : pv) : bool := match v with YList _ => true | _ => false end.
Definition py_is_tuple (v : pv) : bool := match v with YTuple _ => true | _ => false end.

Inductive arith := AAdd | ASub | AMul | AFloorDiv | AMod | AAnd | AOr | AXor | ALShift | ARShift.

(* what two operands that are not both numbers give: None / YBad with anything is TypeError; combinations Python
   accepts but this file does not model (str * int, list + list, ...) are OtherError, never a value *)
Definition not_numbers {A} (a b : pv) : comp A :=
  match num a, num b with
  | Some _, _ | _, Some _ => Raise TypeError
  | None, None =>
      match a, b with
      | YNone, _ | _, YNone | YBad, _ | _, YBad => Raise TypeError
      | _, _ => Raise OtherError
      end
  end.

(* a op b *)
Definition py_arith (op : arith) (a b : pv) : comp pv :=
  match num a, num b with
  | Some (x, fa), Some (y, fb) =>
      let fl := if fa then true else fb in
      match op with
      | AAdd => Ret (mknum (x + y) fl)
      | ASub => Ret (mknum (x - y) fl)
      | AMul => Ret (mknum (x * y) fl)
      | AFloorDiv => Branch (y =? 0) (Raise OtherError) (Ret (mknum (x / y) fl))        (* ZeroDivisionError *)
      | AMod => Branch (y =? 0) (Raise OtherError) (Ret (mknum (x mod y) fl))
      | AAnd => if fl then Raise TypeError else Ret (YInt (Z.land x y))
      | AOr => if fl then Raise TypeError else Ret (YInt (Z.lor x y))
      | AXor => if fl then Raise TypeError else Ret (YInt (Z.lxor x y))
      | ALShift => if fl then Raise TypeError else Branch (y <? 0) (Raise ValueError) (Ret (YInt (Z.shiftl x y)))
      | ARShift => if fl then Raise TypeError else Branch (y <? 0) (Raise ValueError) (Ret (YInt (Z.shiftr x y)))
      end
  | _, _ => not_numbers a b
  end.

Definition py_neg (a : pv) : comp pv :=
  match num a with Some (x, fl) => Ret (mknum (- x) fl) | None => Raise TypeError end.
Definition py_invert (a : pv) : comp pv :=
  match num a with Some (x, false) => Ret (YInt (Z.lnot x)) | _ => Raise TypeError end.

Inductive cmp := CLt | CLe | CGt | CGe.

(* every ordering is expressed with <? so that proofs meet one atom per pair of operands *)
Definition py_cmp (op : cmp) (a b : pv) : comp bool :=
  match num a, num b with
  | Some (x, _), Some (y, _) =>
      Ret (match op with CLt => x <? y | CLe => negb (y <? x) | CGt => y <? x | CGe => negb (x <? y) end)
  | _, _ => not_numbers a b
  end.

(* a == b for scalars; None when comparing composite values (not modelled); references compare by identity *)
Definition py_eq_opt (a b : pv) : option bool :=
  match num a, num b with
  | Some (x, _), Some (y, _) => Some (x =? y)
  | Some _, None | None, Some _ => Some false
  | None, None =>
      match a, b with
      | YNone, YNone => Some true
      | YStr s, YStr t => Some (String.eqb s t)
      | YNone, _ | _, YNone | YStr _, _ | _, YStr _ | YBad, _ | _, YBad => Some false
      | (YObj _ _ | YAttr _ _ | YGlobal _), (YObj _ _ | YAttr _ _ | YGlobal _) => Some (ref_eqb a b)
      | _, _ => None
      end
  end.
Definition py_eq (a b : pv) : comp bool :=
  match py_eq_opt a b with Some e => Ret e | None => Raise OtherError end.

Definition py_truth (v : pv) : comp bool :=
  match v with
  | YInt z | YFloat z => Ret (negb (z =? 0))
  | YBool b => Ret b
  | YNone => Ret false
  | YStr s => Ret (negb (String.eqb s ""))
  | YTuple l | YList l => Ret (match l with [] => false | _ => true end)
  | YDict l => Ret (match l with [] => false | _ => true end)
  | YRange a b c => Ret (if 0 <? c then a <? b else b <? a)
  | YBad | YCon _ _ _ | YGlobal _ | YObj _ _ | YAttr _ _ => Ret true
  end.

(* ---------------------------------------------------------------- range *)

Definition range_len (a b c : Z) : Z :=
  if 0 <? c then Z.max 0 ((b - a + c - 1) / c)
  else if c <? 0 then Z.max 0 ((a - b - c - 1) / (- c))
  else 0.

Definition range_mem (a b c z : Z) : bool :=
  if 0 <? c then (a <=? z) && (z <? b) && ((z - a) mod c =? 0)
  else if c <? 0 then (b <? z) && (z <=? a) && ((a - z) mod (- c) =? 0)
  else false.

Definition range_items (a b c : Z) : list pv :=
  map (fun i => YInt (a + Z.of_nat i * c)) (seq 0 (Z.to_nat (range_len a b c))).

Definition index_of (v : pv) : comp Z :=       (* operator.index *)
  match v with YInt z => Ret z | YBool b => Ret (Z.b2z b) | _ => Raise TypeError end.

Definition py_range (args : list pv) : comp pv :=
  match args with
  | [b] => let* b := index_of b in Ret (YRange 0 b 1)
  | [a; b] => let* a := index_of a in let* b := index_of b in Ret (YRange a b 1)
  | [a; b; c] => let* a := index_of a in let* b := index_of b in let* c := index_of c in
                 Branch (c =? 0) (Raise ValueError) (Ret (YRange a b c))
  | _ => Raise TypeError
  end.

(* ---------------------------------------------------------------- containers *)

(* z == one of the integers of l (a function of its own, so that proofs can keep it folded) *)
Fixpoint mem_z (z : Z) (l : list Z) : bool :=
  match l with [] => false | y :: l' => if z =? y then true else mem_z z l' end.

(* the elements when all of them are numbers *)
Fixpoint nums (l : list pv) : option (list Z) :=
  match l with
  | [] => Some []
  | v :: l' => match num v, nums l' with Some (z, _), Some r => Some (z :: r) | _, _ => None end
  end.

Fixpoint any_eq (x : pv) (l : list pv) : comp bool :=
  match l with
  | [] => Ret false
  | y :: l' => let* e := py_eq x y in Branch e (Ret true) (any_eq x l')
  end.

Definition in_list (x : pv) (l : list pv) : comp bool :=
  match num x, nums l with
  | Some (z, _), Some zs => Ret (mem_z z zs)
  | _, _ => any_eq x l
  end.

(* x in c *)
Definition py_in (x c : pv) : comp bool :=
  match c with
  | YTuple l | YList l => in_list x l
  | YDict l => in_list x (map fst l)
  | YRange a b s => match num x with Some (z, _) => Ret (range_mem a b s z) | None => Ret false end
  | _ => Raise TypeError
  end.

Definition py_len (c : pv) : comp pv :=
  match c with
  | YTuple l | YList l => Ret (YInt (Z.of_nat (List.length l)))
  | YDict l => Ret (YInt (Z.of_nat (List.length l)))
  | YStr s => Ret (YInt (Z.of_nat (String.length s)))
  | YRange a b s => Ret (YInt (range_len a b s))
  | _ => Raise TypeError
  end.

(* iter(c), fully consumed *)
Definition py_iter (c : pv) : comp (list pv) :=
  match c with
  | YTuple l | YList l => Ret l
  | YDict l => Ret (map fst l)
  | YRange a b s => Ret (range_items a b s)
  | _ => Raise TypeError
  end.

Fixpoint dict_lookup (k : pv) (l : list (pv * pv)) : comp pv :=
  match l with
  | [] => Raise KeyError
  | (k', v) :: l' => let* e := py_eq k' k in Branch e (Ret v) (dict_lookup k l')
  end.

(* d[k] for a string constant k, as a plain function (for specifications) *)
Fixpoint dict_str (k : string) (l : list (pv * pv)) : option pv :=
  match l with
  | [] => None
  | (YStr k', v) :: l' => if String.eqb k' k then Some v else dict_str k l'
  | _ :: l' => dict_str k l'
  end.

(* c[i] *)
Definition py_getitem (c i : pv) : comp pv :=
  match c with
  | YTuple l | YList l =>
      let* k := index_of i in
      let n := Z.of_nat (List.length l) in
      Branch (k <? 0)
        (Branch (k + n <? 0) (Raise OtherError)                              (* IndexError *)
           (match nth_error l (Z.to_nat (k + n)) with Some v => Ret v | None => Raise OtherError end))
        (match nth_error l (Z.to_nat k) with Some v => Ret v | None => Raise OtherError end)
  | YDict l => dict_lookup i l
  | _ => Raise TypeError
  end.

(* max(a, b) / min(a, b): the first of the extremal arguments; for two ints that is the int Z.max / Z.min *)
Definition py_max (a b : pv) : comp pv :=
  match a, b with
  | YInt x, YInt y => Ret (YInt (Z.max x y))
  | _, _ => let* g := py_cmp CGt b a in Branch g (Ret b) (Ret a)
  end.
Definition py_min (a b : pv) : comp pv :=
  match a, b with
  | YInt x, YInt y => Ret (YInt (Z.min x y))
  | _, _ => let* g := py_cmp CLt b a in Branch g (Ret b) (Ret a)
  end.

(* ---------------------------------------------------------------- amaranth.utils (specified, not translated) *)

Definition bit_length (z : Z) : Z := if z <=? 0 then 0 else Z.log2 z + 1.

(* exact_log2(n): n = operator.index(n); ValueError unless a power of two; (n - 1).bit_length() *)
Definition py_exact_log2 (v : pv) : comp pv :=
  let* n := index_of v in
  Branch (0 <? n)
    (Branch (Z.land n (n - 1) =? 0) (Ret (YInt (bit_length (n - 1)))) (Raise ValueError))
    (Raise ValueError).

(* ceil_log2(n): n = operator.index(n); ValueError if negative; (n - 1).bit_length() *)
Definition py_ceil_log2 (v : pv) : comp pv :=
  let* n := index_of v in
  Branch (n <? 0) (Raise ValueError) (Ret (YInt (bit_length (n - 1)))).

(* ---------------------------------------------------------------- helpers of the generated code *)

Fixpoint cmapM {X Y} (f : X -> comp Y) (l : list X) : comp (list Y) :=
  match l with
  | [] => Ret []
  | x :: l' => let* y := f x in let* r := cmapM f l' in Ret (y :: r)
  end.

(* [f(x) for x in items] with a body that may raise *)
Definition py_listcomp (f : pv -> comp pv) (items : list pv) : comp pv :=
  let* l := cmapM f items in Ret (YList l).

(* len(list(c)) without building the list *)
Definition py_count (c : pv) : comp Z :=
  match c with
  | YTuple l | YList l => Ret (Z.of_nat (List.length l))
  | YDict l => Ret (Z.of_nat (List.length l))
  | YRange a b s => Ret (range_len a b s)
  | _ => Raise TypeError
  end.

(* [e for _ in c] where e does not mention the loop variable (and has no effect but raising): e is evaluated
   once if c is not empty, not at all if it is; the result holds that one value len(c) times *)
Definition py_const_comp (body : comp pv) (c : pv) : comp pv :=
  let* n := py_count c in
  Branch (0 <? n) (let* y := body in Ret (YList (repeat y (Z.to_nat n)))) (Ret (YList [])).

(* the same when e is a plain value (nothing to evaluate, nothing can be raised) *)
Definition py_repeat (v c : pv) : comp pv :=
  let* n := py_count c in Ret (YList (repeat v (Z.to_nat n))).

(* ---------------------------------------------------------------- small lemmas *)

Lemma cmapM_const {X Y} (y : Y) : forall l : list X, cmapM (fun _ => Ret y) l = Ret (repeat y (List.length l)).
Proof. induction l as [|x l IH]; cbn [cmapM repeat List.length cbind]; [reflexivity|]. rewrite IH. reflexivity. Qed.

Lemma range_items_length a b c : List.length (range_items a b c) = Z.to_nat (range_len a b c).
Proof. unfold range_items. rewrite map_length, seq_length. reflexivity. Qed.

Lemma range_len_simple n : range_len 0 n 1 = Z.max 0 n.
Proof. unfold range_len. cbn [Z.ltb Z.compare]. rewrite Z.div_1_r. f_equal. lia. Qed.
