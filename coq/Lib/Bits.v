(* Bit-vector helpers over Z with explicit widths, and the lemmas the models share. *)
From Coq Require Import ZArith List Bool Lia.
Import ListNotations.
Open Scope Z_scope.

Definition trunc (w z : Z) : Z := z mod 2 ^ w.
Definition slice (off w z : Z) : Z := (z / 2 ^ off) mod 2 ^ w.
Definition bit (z i : Z) : bool := Z.testbit z i.
Definition ones (w : Z) : Z := 2 ^ w - 1.

(* Cat(b.replicate(r) for b in sel), sel having n bits: bit i of the result is bit (i / r) of sel *)
Fixpoint fanout_nat (n : nat) (r sel : Z) : Z :=
  match n with
  | O => 0
  | S n' => fanout_nat n' r sel +
            (if Z.testbit sel (Z.of_nat n') then ones r * 2 ^ (Z.of_nat n' * r) else 0)
  end.
Definition fanout (n r sel : Z) : Z := fanout_nat (Z.to_nat n) r sel.

(* set/replace a field of width w at bit offset off *)
Definition set_slice (off w z v : Z) : Z :=
  z - slice off w z * 2 ^ off + trunc w v * 2 ^ off.

Definition ceil_log2 (n : Z) : Z := if n <=? 1 then 0 else Z.log2_up n.
Definition is_pow2 (n : Z) : bool := (0 <? n) && (Z.land n (n - 1) =? 0).

Lemma pow2_pos k : 0 <= k -> 0 < 2 ^ k.
Proof. intros; apply Z.pow_pos_nonneg; lia. Qed.

Lemma trunc_range w z : 0 <= w -> 0 <= trunc w z < 2 ^ w.
Proof. intros; unfold trunc; apply Z.mod_pos_bound; apply pow2_pos; auto. Qed.

Lemma slice_range off w z : 0 <= w -> 0 <= slice off w z < 2 ^ w.
Proof. intros; unfold slice; apply Z.mod_pos_bound; apply pow2_pos; auto. Qed.

Lemma land_pow2m1 x k : 0 <= k -> Z.land x (2 ^ k - 1) = x mod 2 ^ k.
Proof.
  intros. replace (2 ^ k - 1) with (Z.ones k) by (rewrite Z.ones_equiv; lia).
  apply Z.land_ones; lia.
Qed.

Lemma slice_testbit off w z i : 0 <= off -> 0 <= w -> 0 <= i ->
  Z.testbit (slice off w z) i = if i <? w then Z.testbit z (off + i) else false.
Proof.
  intros Ho Hw Hi. unfold slice.
  destruct (Z.ltb_spec i w).
  - rewrite Z.mod_pow2_bits_low by lia. rewrite <- Z.shiftr_div_pow2 by lia.
    rewrite Z.shiftr_spec by lia. f_equal; lia.
  - apply Z.mod_pow2_bits_high; lia.
Qed.

Lemma trunc_testbit w z i : 0 <= w -> 0 <= i ->
  Z.testbit (trunc w z) i = if i <? w then Z.testbit z i else false.
Proof.
  intros Hw Hi. unfold trunc. destruct (Z.ltb_spec i w).
  - apply Z.mod_pow2_bits_low; lia.
  - apply Z.mod_pow2_bits_high; lia.
Qed.

Lemma trunc_small w z : 0 <= z < 2 ^ w -> trunc w z = z.
Proof. intros; unfold trunc; apply Z.mod_small; auto. Qed.

Lemma trunc_idem w z : 0 <= w -> trunc w (trunc w z) = trunc w z.
Proof. intros; unfold trunc; apply Z.mod_mod; pose proof (pow2_pos w); lia. Qed.
