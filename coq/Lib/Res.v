(* Results and exceptions of the modelled Python API. *)
From Coq Require Import ZArith List Bool.
Import ListNotations.
Open Scope Z_scope.

Inductive exn := ValueError | TypeError | KeyError | AssertionError | OtherError.
Inductive res (A : Type) := Ok (a : A) | Err (e : exn).
Arguments Ok {A} a.
Arguments Err {A} e.

Definition exn_code (e : exn) : Z :=
  match e with ValueError => 1 | TypeError => 2 | KeyError => 3 | AssertionError => 4 | OtherError => 5 end.

Definition bind {A B} (r : res A) (f : A -> res B) : res B :=
  match r with Ok a => f a | Err e => Err e end.

Notation "'let!' x := e 'in' k" := (bind e (fun x => k))
  (at level 200, x binder, e at level 100, k at level 200, right associativity).

Definition check (b : bool) (e : exn) : res unit := if b then Ok tt else Err e.

(* an argument that may be an int, None, or something else entirely *)
Inductive pyint := VInt (z : Z) | VNone | VBad.

Fixpoint mapR {X Y} (f : X -> res Y) (l : list X) : res (list Y) :=
  match l with
  | [] => Ok []
  | x :: l' => match f x with
               | Ok y => match mapR f l' with Ok r => Ok (y :: r) | Err e => Err e end
               | Err e => Err e
               end
  end.
