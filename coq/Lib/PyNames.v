(* How harness/translate4.py reads the Python values that occur as memory-map names (part of its trusted reading
   of Python).  A value not yet validated is a `rawname` (str / tuple / anything else) made of `rawpart`s
   (str / int / anything else); a MemoryMap.Name instance is a `name` = list of `part`s and, being a tuple, can be
   handed back to code that expects an arbitrary value (raw_of_name).  An operation whose Python result the
   abstraction cannot tell (len of a str, truth value or ordering of an unknown object, iterating a non-tuple, ...)
   is Err OtherError: the model never answers OtherError for a name, so a tie lemma cannot hold if such an
   operation is reachable. *)
From Coq Require Import ZArith List Bool.
From Soc Require Import Lib.Res Lib.PyLoop Model.MemoryMap.
Import ListNotations.
Open Scope Z_scope.

(* isinstance(x, str) / isinstance(x, tuple) on a raw name; isinstance(p, str) / isinstance(p, int) on a raw part *)
Definition is_nstr (r : rawname) : bool := match r with NStr _ => true | _ => false end.
Definition is_ntuple (r : rawname) : bool := match r with NTuple _ => true | _ => false end.
Definition is_rstr (p : rawpart) : bool := match p with RStr _ => true | _ => false end.
Definition is_rint (p : rawpart) : bool := match p with RInt _ => true | _ => false end.
Definition is_pstr (p : part) : bool := match p with PStr _ => true | _ => false end.
Definition is_pint (p : part) : bool := match p with PInt _ => true | _ => false end.

(* a raw value as an element of a tuple display `(x, ...)` *)
Definition raw_as_part (r : rawname) : rawpart := match r with NStr a => RStr a | _ => ROther end.
Definition raw_tuple (l : list rawpart) : rawname := NTuple l.

(* len(x), iter(x) *)
Definition raw_len (r : rawname) : res Z := match r with NTuple l => Ok (py_len l) | _ => Err OtherError end.
Definition raw_iter (r : rawname) : res (list rawpart) := match r with NTuple l => Ok l | _ => Err OtherError end.

(* bool(p): atom 0 is the empty string; p as an operand of an integer comparison *)
Definition raw_truthy (p : rawpart) : res bool :=
  match p with RStr a => Ok (negb (a =? 0)) | RInt n => Ok (negb (n =? 0)) | ROther => Err OtherError end.
Definition raw_int (p : rawpart) : res Z := match p with RInt n => Ok n | _ => Err OtherError end.

(* tuple.__new__(MemoryMap.Name, x): the same items, now typed as a Name; no validation happens here *)
Definition cast_part (p : rawpart) : res part :=
  match p with RStr a => Ok (PStr a) | RInt n => Ok (PInt n) | ROther => Err OtherError end.
Definition cast_name (r : rawname) : res name :=
  match r with NTuple l => mapR cast_part l | _ => Err OtherError end.

(* a Name instance seen as an arbitrary value again *)
Definition raw_of_part (p : part) : rawpart := match p with PStr a => RStr a | PInt n => RInt n end.
Definition raw_of_name (n : name) : rawname := NTuple (map raw_of_part n).

(* the dict Name -> object of _Namespace, through its keys *)
Definition ns_has (d : list name) (k : name) : bool := dict_has name_eqb d k.
Definition ns_set (d : list name) (k : name) : list name := dict_set name_eqb d k.
Definition ns_update (d other : list name) : list name := dict_update name_eqb d other.
Definition ns_get (d : list name) (k : name) : res unit := dict_get name_eqb d k.
