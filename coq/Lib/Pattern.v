(* '0' / '1' / '-' patterns as produced by MemoryMap.window_patterns() (memory.py:564-585) and
   matched by Amaranth's Switch/Case.  Self-contained (stdlib only).
   A pattern is a list of characters, most significant first, exactly like the Python string. *)
From Coq Require Import ZArith List Bool Lia Arith.
Import ListNotations.
Open Scope Z_scope.

Inductive pchar := P0 | P1 | PD.

Definition pbit (b : bool) : pchar := if b then P1 else P0.

(* the n low binary digits of x, most significant first *)
Fixpoint bits_msb (n : nat) (x : Z) : list pchar :=
  match n with
  | O => []
  | S n' => pbit (Z.testbit x (Z.of_nat n')) :: bits_msb n' x
  end.

(* Python f"{x:0{n}b}" for x >= 0, n >= 1: at least n digits, more if x needs them *)
Definition fmt_bin (n x : Z) : list pchar :=
  bits_msb (Z.to_nat (Z.max n (Z.log2 x + 1))) x.

(* window_patterns(): const_bits = aw - aw_w; const part only if const_bits > 0; then aw_w dashes *)
Definition window_pattern (aw aw_w start : Z) : list pchar :=
  let cb := aw - aw_w in
  (if 0 <? cb then fmt_bin cb (Z.shiftr start aw_w) else []) ++ repeat PD (Z.to_nat aw_w).

Definition cmatch (c : pchar) (b : bool) : bool :=
  match c with PD => true | P1 => b | P0 => negb b end.

(* Case(p) against a value a whose width is length p: character k (from the left) is compared with
   bit (length p - 1 - k) of a *)
Fixpoint pmatch (p : list pchar) (a : Z) : bool :=
  match p with
  | [] => true
  | c :: p' => cmatch c (Z.testbit a (Z.of_nat (length p'))) && pmatch p' a
  end.

(* ---------------------------------------------------------------------------------------------- *)

Lemma bits_msb_length n x : length (bits_msb n x) = n.
Proof. induction n; simpl; auto. Qed.

Lemma cmatch_pbit b b' : cmatch (pbit b) b' = true <-> b' = b.
Proof. destruct b, b'; simpl; intuition congruence. Qed.

Lemma pmatch_dashes n a : pmatch (repeat PD n) a = true.
Proof. induction n; simpl; auto. Qed.

(* a constant part followed by dashes: the constant digits are compared with the bits above the dashes *)
Lemma pmatch_bits_dashes c n x a :
  pmatch (bits_msb c x ++ repeat PD n) a = true <->
  forall i, (i < c)%nat -> Z.testbit a (Z.of_nat (i + n)) = Z.testbit x (Z.of_nat i).
Proof.
  induction c as [|c IH].
  - simpl. rewrite pmatch_dashes. split; auto. intros _ i Hi. lia.
  - cbn [bits_msb app pmatch]. rewrite app_length, bits_msb_length, repeat_length.
    rewrite andb_true_iff, cmatch_pbit, IH. split.
    + intros [H1 H2] i Hi. destruct (Nat.eq_dec i c) as [->|Hne]; auto. apply H2; lia.
    + intros H. split; [apply H; lia | intros i Hi; apply H; lia].
Qed.

Lemma firstn_repeat {X} (x : X) n k : firstn k (repeat x n) = repeat x (Nat.min k n).
Proof.
  revert k; induction n as [|n IH]; intros k; destruct k; simpl; auto. f_equal. apply IH.
Qed.

Lemma firstn_bits_msb c : forall k x,
  firstn k (bits_msb c x) =
  bits_msb (Nat.min k c) (Z.shiftr x (Z.of_nat (c - Nat.min k c))).
Proof.
  induction c as [|c IH]; intros k x.
  - rewrite Nat.min_0_r. simpl. destruct k; reflexivity.
  - destruct k as [|k].
    + reflexivity.
    + cbn [bits_msb firstn]. rewrite IH.
      replace (Nat.min (S k) (S c)) with (S (Nat.min k c)) by lia.
      cbn [bits_msb]. replace (S c - S (Nat.min k c))%nat with (c - Nat.min k c)%nat by lia.
      f_equal. f_equal. rewrite Z.shiftr_spec by lia. f_equal. lia.
Qed.

(* taking the first k characters of <c digits of x><n dashes> gives a pattern of the same shape *)
Lemma firstn_bits_dashes k c n x :
  firstn k (bits_msb c x ++ repeat PD n) =
  bits_msb (Nat.min k c) (Z.shiftr x (Z.of_nat (c - Nat.min k c))) ++ repeat PD (Nat.min (k - c) n).
Proof.
  rewrite firstn_app, bits_msb_length, firstn_bits_msb, firstn_repeat. reflexivity.
Qed.

Lemma testbit_above a k i : 0 <= a < 2 ^ k -> k <= i -> Z.testbit a i = false.
Proof.
  intros Ha Hi. destruct (Z.ltb_spec k 0).
  - rewrite Z.pow_neg_r in Ha by lia. lia.
  - rewrite <- (Z.mod_small a (2 ^ k)) by lia. apply Z.mod_pow2_bits_high. lia.
Qed.

(* arithmetic reading: with x on c digits and a on c+n bits, the pattern matches a iff a's top c
   bits are x *)
Lemma pmatch_prefix_iff c n x a :
  0 <= x < 2 ^ Z.of_nat c -> 0 <= a < 2 ^ (Z.of_nat c + Z.of_nat n) ->
  (pmatch (bits_msb c x ++ repeat PD n) a = true <-> a / 2 ^ Z.of_nat n = x).
Proof.
  intros Hx Ha. rewrite pmatch_bits_dashes. rewrite <- Z.shiftr_div_pow2 by lia. split.
  - intros H. apply Z.bits_inj'. intros i Hi. rewrite Z.shiftr_spec by lia.
    destruct (Z.ltb_spec i (Z.of_nat c)).
    + specialize (H (Z.to_nat i)). rewrite Nat2Z.inj_add, Z2Nat.id in H by lia. apply H. lia.
    + rewrite (testbit_above x (Z.of_nat c) i) by lia.
      apply (testbit_above a (Z.of_nat c + Z.of_nat n)); lia.
  - intros <- i Hi. rewrite Z.shiftr_spec by lia. f_equal. lia.
Qed.

(* the number of digits Python prints is the requested one whenever the value fits *)
Lemma fmt_bin_fits n x : 0 < n -> 0 <= x < 2 ^ n -> fmt_bin n x = bits_msb (Z.to_nat n) x.
Proof.
  intros Hn Hx. unfold fmt_bin. f_equal. f_equal.
  destruct (Z.eq_dec x 0) as [->|Hne]; [simpl; lia|].
  assert (Z.log2 x < n) by (apply Z.log2_lt_pow2; lia). lia.
Qed.

Lemma window_pattern_length_ge aw aw_w start :
  0 <= aw_w -> (Z.to_nat aw <= length (window_pattern aw aw_w start))%nat.
Proof.
  intros Hw. unfold window_pattern. rewrite app_length, repeat_length.
  destruct (Z.ltb_spec 0 (aw - aw_w)).
  - unfold fmt_bin. rewrite bits_msb_length. lia.
  - simpl. lia.
Qed.
