(* '0'/'1'/'-' patterns as produced by MemoryMap.window_patterns() (amaranth_soc/memory.py:564-585)
   and matched by Amaranth's Switch/Case.  Self-contained: definitions, then the lemmas that equate the
   bit-by-bit match with its arithmetic reading. *)
From Coq Require Import ZArith List Bool Lia.
Import ListNotations.
Open Scope Z_scope.

(* A pattern string, most significant character first; None is the wildcard '-'. *)
Definition pattern := list (option bool).

(* the n low bits of v, most significant first *)
Fixpoint bits_msb (n : nat) (v : Z) : list bool :=
  match n with
  | O => []
  | S n' => Z.testbit v (Z.of_nat n') :: bits_msb n' v
  end.

(* Python  f"{v:0{w}b}"  for v >= 0 and w >= 1: at least w digits, MORE when v does not fit. *)
Definition ndigits (w v : Z) : Z := Z.max w (Z.log2 v + 1).
Definition format_bin (w v : Z) : list bool := bits_msb (Z.to_nat (ndigits w v)) v.

(* window_patterns(): const_bits = aw - aw_w;  const_pat = format(start >> aw_w) if const_bits > 0 else "";
   pattern = const_pat + "-" * aw_w *)
Definition window_pattern (aw aw_w start : Z) : pattern :=
  let const_bits := aw - aw_w in
  (if 0 <? const_bits then map Some (format_bin const_bits (Z.shiftr start aw_w)) else [])
  ++ repeat None (Z.to_nat aw_w).

(* Case(pattern) against a value: character j from the right is compared with bit j. *)
Definition cmatch (c : option bool) (b : bool) : bool :=
  match c with None => true | Some x => Bool.eqb b x end.

Fixpoint pmatch (p : pattern) (a : Z) : bool :=
  match p with
  | [] => true
  | c :: p' => cmatch c (Z.testbit a (Z.of_nat (length p'))) && pmatch p' a
  end.

(* ------------------------------------------------------------------------------------------ *)

Lemma pow2_pos' k : 0 <= k -> 0 < 2 ^ k.
Proof. intros; apply Z.pow_pos_nonneg; lia. Qed.

Lemma bits_msb_length n v : length (bits_msb n v) = n.
Proof. induction n as [|n IH]; simpl; auto. Qed.

Lemma pmatch_app p1 p2 a :
  pmatch (p1 ++ p2) a = pmatch p1 (Z.shiftr a (Z.of_nat (length p2))) && pmatch p2 a.
Proof.
  induction p1 as [|c p1 IH]; simpl; [reflexivity|].
  rewrite IH, app_length, Nat2Z.inj_add, Z.shiftr_spec by lia.
  rewrite andb_assoc. reflexivity.
Qed.

Lemma pmatch_dashes n a : pmatch (repeat None n) a = true.
Proof. induction n as [|n IH]; simpl; auto. Qed.

(* one more bit of a remainder *)
Lemma mod_pow2_succ x n : 0 <= n ->
  x mod 2 ^ (n + 1) = x mod 2 ^ n + 2 ^ n * Z.b2z (Z.testbit x n).
Proof.
  intros Hn. rewrite Z.pow_add_r, Z.pow_1_r by lia.
  pose proof (pow2_pos' n Hn) as Hp.
  rewrite Z.rem_mul_r by lia. rewrite Z.testbit_spec' by lia. reflexivity.
Qed.

(* a constant part of n characters compares the n low bits *)
Lemma pmatch_const n v x :
  pmatch (map Some (bits_msb n v)) x = (x mod 2 ^ Z.of_nat n =? v mod 2 ^ Z.of_nat n).
Proof.
  induction n as [|n IH].
  - simpl. rewrite !Z.mod_1_r. reflexivity.
  - cbn [bits_msb map pmatch cmatch]. rewrite map_length, bits_msb_length, IH.
    rewrite Nat2Z.inj_succ, <- Z.add_1_r.
    rewrite !mod_pow2_succ by lia.
    pose proof (pow2_pos' (Z.of_nat n) (Nat2Z.is_nonneg n)) as Hp.
    pose proof (Z.mod_pos_bound x (2 ^ Z.of_nat n) Hp) as Hx.
    pose proof (Z.mod_pos_bound v (2 ^ Z.of_nat n) Hp) as Hv.
    destruct (Z.testbit x (Z.of_nat n)), (Z.testbit v (Z.of_nat n)); cbn [Bool.eqb Z.b2z andb];
      destruct (Z.eqb_spec (x mod 2 ^ Z.of_nat n) (v mod 2 ^ Z.of_nat n)) as [E|E];
      symmetry; try (apply Z.eqb_eq; lia); apply Z.eqb_neq; lia.
Qed.

Lemma ndigits_fits w v : 1 <= w -> 0 <= v < 2 ^ w -> ndigits w v = w.
Proof.
  intros Hw Hv. unfold ndigits.
  destruct (Z.eq_dec v 0) as [->|Hne]; [simpl; lia|].
  assert (Z.log2 v < w) by (apply Z.log2_lt_pow2; lia). lia.
Qed.

Lemma shiftr_bound start aw aw_w : 0 <= aw_w <= aw -> 0 <= start < 2 ^ aw ->
  0 <= Z.shiftr start aw_w < 2 ^ (aw - aw_w).
Proof.
  intros Hw Hs. rewrite Z.shiftr_div_pow2 by lia.
  pose proof (pow2_pos' aw_w ltac:(lia)) as Hp.
  split; [apply Z.div_pos; lia|].
  apply Z.div_lt_upper_bound; [lia|].
  rewrite <- Z.pow_add_r by lia. replace (aw_w + (aw - aw_w)) with aw by lia. lia.
Qed.

(* On every window the memory map accepts, Python's format prints exactly const_bits digits and the
   pattern has the width of the decoder's address (otherwise Amaranth refuses the Case). *)
Lemma window_pattern_length aw aw_w start : 0 <= aw_w <= aw -> 0 <= start < 2 ^ aw ->
  Z.of_nat (length (window_pattern aw aw_w start)) = aw.
Proof.
  intros Hw Hs. unfold window_pattern. rewrite app_length, repeat_length.
  destruct (Z.ltb_spec 0 (aw - aw_w)) as [Hc|Hc].
  - rewrite map_length. unfold format_bin. rewrite bits_msb_length.
    rewrite ndigits_fits by (try lia; apply shiftr_bound; lia). lia.
  - simpl. lia.
Qed.

(* bit-by-bit match = comparison of the address divided by the window size *)
Lemma pattern_matches_div aw aw_w start a :
  0 <= aw_w <= aw -> 0 <= start < 2 ^ aw -> 0 <= a < 2 ^ aw ->
  pmatch (window_pattern aw aw_w start) a = (a / 2 ^ aw_w =? start / 2 ^ aw_w).
Proof.
  intros Hw Hs Ha. unfold window_pattern.
  rewrite pmatch_app, pmatch_dashes, andb_true_r, repeat_length, Z2Nat.id by lia.
  pose proof (shiftr_bound start aw aw_w Hw Hs) as Bs.
  pose proof (shiftr_bound a aw aw_w Hw Ha) as Ba.
  rewrite !Z.shiftr_div_pow2 in * by lia.
  destruct (Z.ltb_spec 0 (aw - aw_w)) as [Hc|Hc].
  - unfold format_bin. rewrite ndigits_fits by lia.
    rewrite pmatch_const, Z2Nat.id by lia.
    rewrite !Z.mod_small by lia. reflexivity.
  - assert (aw_w = aw) as -> by lia. simpl.
    rewrite !Z.div_small by lia. reflexivity.
Qed.

Lemma div_eq_iff a v P : 0 < P -> (a / P = v <-> v * P <= a < v * P + P).
Proof.
  intros HP. split.
  - intros <-. pose proof (Z.mul_div_le a P HP). pose proof (Z.mul_succ_div_gt a P HP). lia.
  - intros H. symmetry. apply (Z.div_unique a P v (a - v * P)); lia.
Qed.

(* DESIGN §5 C06: pattern_matches_iff *)
Lemma pattern_matches_iff aw aw_w start a :
  0 <= aw_w <= aw -> 0 <= start < 2 ^ aw -> 0 <= a < 2 ^ aw ->
  (pmatch (window_pattern aw aw_w start) a = true <->
   start / 2 ^ aw_w * 2 ^ aw_w <= a < start / 2 ^ aw_w * 2 ^ aw_w + 2 ^ aw_w).
Proof.
  intros Hw Hs Ha. rewrite pattern_matches_div by assumption.
  rewrite Z.eqb_eq. apply div_eq_iff. apply pow2_pos'; lia.
Qed.

Lemma aligned_floor start aw_w : 0 <= aw_w -> start mod 2 ^ aw_w = 0 ->
  start / 2 ^ aw_w * 2 ^ aw_w = start.
Proof.
  intros Hw Hm. pose proof (pow2_pos' aw_w Hw) as Hp.
  pose proof (Z.div_mod start (2 ^ aw_w)). lia.
Qed.

(* with start a multiple of the window size *)
Lemma pattern_matches_aligned aw aw_w start a :
  0 <= aw_w <= aw -> 0 <= start < 2 ^ aw -> start mod 2 ^ aw_w = 0 -> 0 <= a < 2 ^ aw ->
  (pmatch (window_pattern aw aw_w start) a = true <-> start <= a < start + 2 ^ aw_w).
Proof.
  intros Hw Hs Hm Ha. rewrite pattern_matches_iff by assumption.
  rewrite aligned_floor by (try assumption; lia). reflexivity.
Qed.
