(* Interchange type between the harness and the executable models.
   One S-expression of integers per case; decoding failures are explicit. *)
From Coq Require Import ZArith List Bool.
Import ListNotations.
Open Scope Z_scope.

Inductive sx := A (z : Z) | L (l : list sx).

Definition bad (code : Z) : sx := L [A (-1); A code].

Definition getZ (s : sx) : option Z := match s with A z => Some z | L _ => None end.
Definition getL (s : sx) : option (list sx) := match s with L l => Some l | A _ => None end.

Fixpoint getZs (l : list sx) : option (list Z) :=
  match l with
  | [] => Some []
  | A z :: l' => match getZs l' with Some r => Some (z :: r) | None => None end
  | L _ :: _ => None
  end.

Definition getZL (s : sx) : option (list Z) :=
  match s with L l => getZs l | A _ => None end.

Fixpoint mapM {X Y} (f : X -> option Y) (l : list X) : option (list Y) :=
  match l with
  | [] => Some []
  | x :: l' => match f x with
               | Some y => match mapM f l' with Some r => Some (y :: r) | None => None end
               | None => None
               end
  end.

Definition zl (l : list Z) : sx := L (map A l).
Definition b2z (b : bool) : Z := if b then 1 else 0.
Definition z2b (z : Z) : bool := negb (z =? 0).
Definition ob (o : option Z) : sx := match o with Some z => L [A z] | None => L [] end.

Notation "'do' x <- e ; k" := (match e with Some x => k | None => bad 0 end)
  (at level 200, x pattern, e at level 100, k at level 200).
