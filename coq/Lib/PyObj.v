(* Fixed vocabulary of the event translator (harness/translate6.py -> Gen/EventGen.v): how the Python objects
   that amaranth_soc/event.py and csr/event.py handle are represented in the generated Gallina.  Nothing here is
   translated; these are the SPECIFIED parts (dict, Enum lookup by value, the Amaranth DSL as a token stream),
   in the same sense as bisect in Lib/PyList.v. *)
From Coq Require Import String ZArith List Bool.
From Soc Require Import Lib.Res.
Import ListNotations.
Open Scope Z_scope.

(* ---------------------------------------------------------------- objects with identity *)

(* an argument handed to EventMap.add / index: an event.Source object or anything else; both have an id() *)
Inductive pyobj := PSource (id : Z) | POther (id : Z).
Definition obj_id (o : pyobj) : Z := match o with PSource i => i | POther i => i end.
Definition is_source (o : pyobj) : bool := match o with PSource _ => true | POther _ => false end.

(* possibly-None / possibly-non-int arguments (same reading as harness/translate2.py) *)
Definition pi_is_none (v : pyint) : bool := match v with VNone => true | _ => false end.
Definition pi_is_int (v : pyint) : bool := match v with VInt _ => true | _ => false end.
Definition pi_zof (v : pyint) : Z := match v with VInt z => z | _ => 0 end.

(* ---------------------------------------------------------------- dict: insertion-ordered, integer keys *)

Section Dict.
  Context {V : Type}.

  Fixpoint dict_get (k : Z) (d : list (Z * V)) : option V :=
    match d with
    | [] => None
    | (k', v) :: d' => if k' =? k then Some v else dict_get k d'
    end.

  Definition dict_mem (k : Z) (d : list (Z * V)) : bool :=
    match dict_get k d with Some _ => true | None => false end.

  (* d[k] = v : an existing key keeps its position, a new key goes last *)
  Fixpoint dict_set (k : Z) (v : V) (d : list (Z * V)) : list (Z * V) :=
    match d with
    | [] => [(k, v)]
    | (k', v') :: d' => if k' =? k then (k', v) :: d' else (k', v') :: dict_set k v d'
    end.

  Definition dict_values (d : list (Z * V)) : list V := map snd d.
  Definition dict_keys (d : list (Z * V)) : list Z := map fst d.
  Definition dict_len (d : list (Z * V)) : Z := Z.of_nat (List.length d).

  Lemma dict_set_fresh k v : forall d, dict_get k d = None -> dict_set k v d = d ++ [(k, v)].
  Proof.
    induction d as [|[k' v'] d IH]; cbn [dict_get dict_set app]; [reflexivity|].
    destruct (k' =? k); [discriminate|]. intros H. rewrite IH by exact H. reflexivity.
  Qed.
End Dict.

(* `for x in l:` with a body that may raise: left-to-right, stops at the first exception *)
Fixpoint fold_res {S A} (f : S -> A -> res S) (l : list A) (s : S) : res S :=
  match l with
  | [] => Ok s
  | x :: l' => match f s x with Ok s' => fold_res f l' s' | Err e => Err e end
  end.

(* reading a local variable that may be unbound at this point (UnboundLocalError is not a `res` exception of
   its own: OtherError) *)
Definition bound {A} (v : option A) : res A := match v with Some a => Ok a | None => Err OtherError end.

(* ---------------------------------------------------------------- enum.Enum *)

(* an argument that should name an enum member: a string, a member, or something else *)
Inductive pyval (E : Type) := VStr (s : string) | VMember (m : E) | VOtherVal.
Arguments VStr {E} s.
Arguments VMember {E} m.
Arguments VOtherVal {E}.

(* E(x): a member is returned as is; otherwise the first member whose value equals x; otherwise ValueError *)
Definition enum_call {E} (members : list (E * string)) (x : pyval E) : res E :=
  match x with
  | VMember m => Ok m
  | VStr s => match find (fun p => String.eqb (snd p) s) members with
              | Some p => Ok (fst p)
              | None => Err ValueError
              end
  | VOtherVal => Err ValueError
  end.

(* ---------------------------------------------------------------- EventMap objects *)

(* self._sources : dict id(src) -> (src, index);  self._frozen *)
Definition sdict := list (Z * (pyobj * Z)).
Definition emap := (sdict * bool)%type.

(* an argument that should be an EventMap: one (with its current state), None, or something else *)
Inductive pyemap := PMap (e : emap) | PNone | POtherMap.
Definition is_map (p : pyemap) : bool := match p with PMap _ => true | _ => false end.
Definition is_none_map (p : pyemap) : bool := match p with PNone => true | _ => false end.
(* read through this projection after the isinstance guard the code itself performs (cf. zof) *)
Definition emap_of (p : pyemap) : emap := match p with PMap e => e | _ => ([], false) end.

(* ---------------------------------------------------------------- wiring: signature / component members *)

Inductive dir := DIn | DOut.
Definition port := (dir * Z)%type.                     (* In(w) / Out(w) *)

(* a reference to an object held in an attribute of self, and attribute reads / argument-less method calls
   on it that the translator does not interpret: an uninterpreted term *)
Inductive xterm := XRoot (attr : string) | XAttr (x : xterm) (a : string) | XMeth (x : xterm) (m : string).

Section Members.
  Context {Sig : Type}.
  Inductive member := MPort (d : dir) (w : Z) | MIface (d : dir) (s : Sig) | MExt (d : dir) (x : xterm).
End Members.
Arguments member Sig : clear implicits.

(* ---------------------------------------------------------------- Amaranth DSL, as what elaborate() emits *)

Inductive expr :=
| EPort (path : string)                (* self.<path>: a port of the component being elaborated *)
| ESub (o : pyobj) (member : string)   (* <source object>.<member> *)
| ELike (e : expr) (suffix : string)   (* Signal.like(e, name_suffix=suffix), created at this point *)
| EConst (z : Z)
| ENot (a : expr) | EAnd (a b : expr) | EOr (a b : expr) | EXor (a b : expr)
| EBit (a : expr) (k : Z)              (* a[k] *)
| EAny (a : expr) | EAll (a : expr).

Inductive dom := DComb | DSync.

(* the Module, as the sequence of what was done to it: m.d.<dom> += lhs.eq(rhs), and entering / leaving
   `with m.If(c)` / `m.Elif(c)` / `m.Else()` blocks *)
Inductive stmt :=
| SAssign (d : dom) (lhs rhs : expr)
| SIf (c : expr) | SElif (c : expr) | SElse | SEnd.

(* ---------------------------------------------------------------- csr registers / memory map calls *)

(* Field(<action class>, width, access=...) *)
Definition field := (string * Z * string)%type.
(* a Register subclass instance: the class's access= keyword and the fields handed to Register.__init__ *)
Definition register := (string * list (string * field))%type.

Inductive pyname := NmStr (s : string) | NmTuple (l : list string).

(* memory_map.add_resource(resource, name=, size=, addr=, alignment=): omitted keywords are None *)
Record addcall := { ac_res : xterm; ac_name : pyname; ac_size : pyint; ac_addr : pyint; ac_alignment : pyint }.
(* MemoryMap(addr_width=, data_width=, alignment=) followed by the add_resource calls made on it, in order *)
Record mmtrace := { mt_addr_width : pyint; mt_data_width : pyint; mt_alignment : pyint;
                    mt_adds : list addcall }.
Definition mm_add (m : mmtrace) (c : addcall) : mmtrace :=
  {| mt_addr_width := mt_addr_width m; mt_data_width := mt_data_width m; mt_alignment := mt_alignment m;
     mt_adds := mt_adds m ++ [c] |}.
