(* Python-object vocabulary of the register translator (harness/translate7.py -> Gen/RegGen.v).
   Nothing here is translated: these are the SPECIFIED primitives the generated text is written in (what
   isinstance / len / truthiness / dict and list operations / Mapping.items / Field.create / the for statement
   mean on the value universe below), in the way Lib/PyList.v specifies bisect for the range-map translator.
   No proofs here except the two `for` unfolding facts. *)
From Coq Require Import ZArith List Bool.
From Soc Require Import Model.RegPack.
From Soc Require Import Lib.Res.   (* after RegPack: res / Ok / Err / ValueError / TypeError are Lib.Res's *)
Import ListNotations.
Open Scope Z_scope.

(* ---- values ---- *)

(* dict keys and path elements: a non-empty string (interned as an atom) or an int (enumerate index) *)
Inductive pykey := KStr (a : Z) | KInt (i : Z).

Definition key_eqb (a b : pykey) : bool :=
  match a, b with
  | KStr x, KStr y => x =? y
  | KInt x, KInt y => x =? y
  | _, _ => false
  end.
Definition key_is_str (k : pykey) : bool := match k with KStr _ => true | _ => false end.
Definition key_is_int (k : pykey) : bool := match k with KInt _ => true | _ => false end.
(* bool(key): atoms stand for non-empty strings *)
Definition key_truthy (k : pykey) : bool := match k with KStr _ => true | KInt i => negb (i =? 0) end.

(* The objects the translated methods handle.
   PField  = csr.Field(action_cls, shape, access...) whose action would have a port of width w, access a
   PAction = the FieldAction instance such a Field creates (seen through .port.shape / .port.access)
   PDict / PList = dict (insertion ordered association list) / list
   PAMap / PAArr = FieldActionMap / FieldActionArray instance, carrying its _fields
   PNone = None, POther = any other object *)
Inductive pyv :=
| PNone
| POther
| PField (w : Z) (a : facc)
| PAction (w : Z) (a : facc)
| PDict (l : list (pykey * pyv))
| PList (l : list pyv)
| PAMap (l : list (pykey * pyv))
| PAArr (l : list pyv).

(* isinstance(x, C) *)
Definition is_none (v : pyv) : bool := match v with PNone => true | _ => false end.
Definition is_dict (v : pyv) : bool := match v with PDict _ => true | _ => false end.
Definition is_list (v : pyv) : bool := match v with PList _ => true | _ => false end.
Definition is_field (v : pyv) : bool := match v with PField _ _ => true | _ => false end.
Definition is_action (v : pyv) : bool := match v with PAction _ _ => true | _ => false end.
Definition is_amap (v : pyv) : bool := match v with PAMap _ => true | _ => false end.
Definition is_aarr (v : pyv) : bool := match v with PAArr _ => true | _ => false end.

Definition nilb {X} (l : list X) : bool := match l with [] => true | _ => false end.
Definition zlen {X} (l : list X) : Z := Z.of_nat (length l).

(* bool(x): None and empty containers are falsy (FieldActionMap / Array define __len__) *)
Definition py_truthy (v : pyv) : bool :=
  match v with
  | PNone => false
  | PDict l | PAMap l => negb (nilb l)
  | PList l | PAArr l => negb (nilb l)
  | _ => true
  end.

(* len(x); only meaningful on containers, which is what the code's own isinstance guards ensure *)
Definition py_len (v : pyv) : Z :=
  match v with
  | PDict l | PAMap l => zlen l
  | PList l | PAArr l => zlen l
  | _ => 0
  end.

(* x.items() of a dict *)
Definition py_items (v : pyv) : list (pykey * pyv) := match v with PDict l => l | _ => [] end.

Fixpoint enum_from {X} (i : Z) (l : list X) : list (pykey * X) :=
  match l with
  | [] => []
  | x :: l' => (KInt i, x) :: enum_from (i + 1) l'
  end.
(* enumerate(x) of a list *)
Definition py_enumerate (v : pyv) : list (pykey * pyv) := match v with PList l => enum_from 0 l | _ => [] end.

(* iter(x) of a list object (`for item in x`) *)
Definition py_elems (v : pyv) : list pyv := match v with PList l => l | _ => [] end.

(* self._fields of the two collection classes *)
Definition amap_fields (v : pyv) : list (pykey * pyv) := match v with PAMap l => l | _ => [] end.
Definition aarr_fields (v : pyv) : list pyv := match v with PAArr l => l | _ => [] end.

(* d[k] = v on an insertion-ordered dict: an existing key keeps its position *)
Fixpoint dict_set {X} (d : list (pykey * X)) (k : pykey) (v : X) : list (pykey * X) :=
  match d with
  | [] => [(k, v)]
  | (k', v') :: d' => if key_eqb k' k then (k', v) :: d' else (k', v') :: dict_set d' k v
  end.
(* d[k] *)
Fixpoint dict_lookup {X} (d : list (pykey * X)) (k : pykey) : res X :=
  match d with
  | [] => Err KeyError
  | (k', v') :: d' => if key_eqb k' k then Ok v' else dict_lookup d' k
  end.

(* collections.abc.Mapping.items(): for key in self (__iter__): yield (key, self[key]) (__getitem__) *)
Definition mapping_items {X} (it : res (list pykey)) (getitem : pykey -> res X) : res (list (pykey * X)) :=
  let! ks := it in mapR (fun k => let! v := getitem k in Ok (k, v)) ks.

(* Field.create(): instantiates the action; FieldPort.Signature.__init__ refuses a shape that is not
   shape-like (here: a negative width) with TypeError.  Anything that is not a Field has no create(). *)
Definition field_create (v : pyv) : res pyv :=
  match v with
  | PField w a => if 0 <=? w then Ok (PAction w a) else Err TypeError
  | _ => Err OtherError
  end.

(* field.port.shape / Shape.cast(shape).width / field.port.access *)
Definition port_shape (v : pyv) : Z := match v with PAction w _ => w | _ => 0 end.
Definition shape_width (s : Z) : Z := s.
Definition port_access (v : pyv) : facc := match v with PAction _ a => a | _ => FNC end.

(* Element.Access values that may be None / absent *)
Definition oacc_is_none (a : option racc) : bool := match a with None => true | _ => false end.
Definition oacc_eqb (a b : option racc) : bool :=
  match a, b with
  | Some x, Some y => racc_eqb x y
  | None, None => true
  | _, _ => false
  end.
Definition oe_readable (a : option racc) : bool := match a with Some x => e_readable x | None => false end.
Definition oe_writable (a : option racc) : bool := match a with Some x => e_writable x | None => false end.
Definition opt_is_some {X} (o : option X) : bool := match o with Some _ => true | None => false end.
Definition opt_py (o : option pyv) : pyv := match o with Some v => v | None => PNone end.

(* Element.Signature(width, access) (csr/bus.py): TypeError unless width is a non-negative int *)
Definition elem_signature (width : Z) (access : option racc) : res unit :=
  if width <? 0 then Err TypeError else Ok tt.

(* ---- the for statement ----
   The body maps the loop-carried variables to `Ok (true, s')` (next item), `Ok (false, s')` (break) or
   an exception. *)
Fixpoint for_res {X S} (f : X -> S -> res (bool * S)) (l : list X) (s : S) : res S :=
  match l with
  | [] => Ok s
  | x :: l' =>
      match f x s with
      | Ok (true, s') => for_res f l' s'
      | Ok (false, s') => Ok s'
      | Err e => Err e
      end
  end.

(* ---- Amaranth expressions and statements of Register.elaborate, as opaque constructors ---- *)
Inductive esig := ElRData | ElRStb | ElWData | ElWStb.        (* self.element.<member> *)
Inductive psig := PoRData | PoRStb | PoWData | PoWStb.        (* field.port.<member> *)
Inductive hexpr :=
| HElem (s : esig)
| HPort (f : pyv) (s : psig)
| HSlice (e : hexpr) (lo hi : Z).                             (* e[lo:hi] *)
Inductive hstmt :=
| HEq (lhs rhs : hexpr)                                       (* m.d.comb += lhs.eq(rhs) *)
| HSub (f : pyv).                                             (* m.submodules[...] = f  /  m.submodules += f *)

(* ---- model results seen as Lib.Res results ---- *)
Definition lift_exn (e : RegPack.exn) : exn :=
  match e with RegPack.ValueError => ValueError | RegPack.TypeError => TypeError end.
Definition lift_res {X} (r : RegPack.res X) : res X :=
  match r with RegPack.Ok x => Ok x | RegPack.Err e => Err (lift_exn e) end.
