(* Python / Amaranth values as seen by harness/translate9.py (SigGen.v is generated against this file).

   Everything here is a SPECIFIED abstraction of something the translator does not translate
   (CPython's enum lookup, dict, frozenset; Amaranth's Shape.cast, In/Out, Member.array, Member.signature,
   exact_log2).  Nothing here mentions amaranth-soc: the library's own code is regenerated from its source.
   No proofs about the library here either; a few generic lemmas used by Gen/TieSig.v are at the end. *)
From Coq Require Import ZArith NArith List Bool String Lia Permutation.
From Soc Require Import Lib.Bits Lib.Res.
Import ListNotations.
Open Scope Z_scope.

(* ---------------------------------------------------------------- possibly-non-int arguments (as translate2) *)

Definition is_none (v : pyint) : bool := match v with VNone => true | _ => false end.
Definition is_int (v : pyint) : bool := match v with VInt _ => true | _ => false end.
Definition zof (v : pyint) : Z := match v with VInt z => z | _ => 0 end.
(* `x in (c1, c2, ...)` for integer constants: a non-integer never compares equal to one of them *)
Definition pyint_in (v : pyint) (l : list Z) : bool :=
  match v with VInt z => existsb (Z.eqb z) l | _ => false end.
Definition z_in (z : Z) (l : list Z) : bool := existsb (Z.eqb z) l.

(* ---------------------------------------------------------------- enumerations *)

(* a raw (non-member) value handed to an enumeration class *)
Inductive pyraw := RStr (s : string) | RInt (z : Z) | ROther.
Definition pyraw_eqb (a b : pyraw) : bool :=
  match a, b with
  | RStr s, RStr t => String.eqb s t
  | RInt x, RInt y => Z.eqb x y
  | _, _ => false
  end.

(* the argument of `EnumClass(arg)`: a member of that class, or a raw value *)
Inductive earg (E : Type) := EMem (e : E) | ERaw (r : pyraw).
Arguments EMem {E} e.
Arguments ERaw {E} r.

(* EnumClass(arg): a member is returned as it is, a raw value is looked up among the member values
   (in definition order); no match is ValueError *)
Definition enum_call {E} (table : list (E * pyraw)) (a : earg E) : res E :=
  match a with
  | EMem e => Ok e
  | ERaw r => match find (fun p => pyraw_eqb (snd p) r) table with
              | Some p => Ok (fst p)
              | None => Err ValueError
              end
  end.

(* frozenset of enumeration members: a list of which only membership and (set) equality are observed *)
Definition fset_mem {E} (eqb : E -> E -> bool) (x : E) (s : list E) : bool := existsb (eqb x) s.
Definition fset_sub {E} (eqb : E -> E -> bool) (a b : list E) : bool := forallb (fun x => fset_mem eqb x b) a.
Definition fset_eqb {E} (eqb : E -> E -> bool) (a b : list E) : bool := fset_sub eqb a b && fset_sub eqb b a.

(* ---------------------------------------------------------------- shapes *)

Definition shape := (Z * bool)%type.          (* Shape(width, signed) *)
Definition sh_int (n : Z) : shape := (n, false).         (* an int used as a shape / unsigned(n) *)
Definition sh_signed (n : Z) : shape := (n, true).       (* signed(n) *)
Definition shape_eqb (a b : shape) : bool := (fst a =? fst b) && Bool.eqb (snd a) (snd b).

(* What a caller may pass as a shape: an int, any other shape-like object together with what Amaranth's
   Shape.cast makes of it, or an object that is not shape-like. *)
Inductive shapelike := SLInt (n : Z) | SLCast (w : Z) (s : bool) | SLBad.
(* isinstance(x, ShapeLike) *)
Definition is_shapelike (x : shapelike) : bool :=
  match x with SLInt n => 0 <=? n | SLCast _ _ => true | SLBad => false end.
(* Shape.cast(x) *)
Definition shape_cast (x : shapelike) : res shape :=
  match x with
  | SLInt n => if n <? 0 then Err TypeError else Ok (n, false)
  | SLCast w s => Ok (w, s)
  | SLBad => Err TypeError
  end.

(* Const(v).shape(): Shape(bits_for(v), signed = v < 0) *)
Definition const_shape (v : Z) : shape :=
  if v <? 0 then (ceil_log2 (- v) + 1, true) else if v =? 0 then (1, false) else (Z.log2 v + 1, false).
(* Shape.cast(EnumClass) for an Enum without an explicit shape (Shape._cast_plain_enum): a fold over the
   member values in definition order *)
Definition enum_shape (values : list Z) : shape :=
  fold_left (fun (acc : shape) v =>
               let (w, s) := acc in let (mw, ms) := const_shape v in
               if negb s && ms then (Z.max (w + 1) mw, true)
               else if s && negb ms then (Z.max w (mw + 1), s)
               else (Z.max w mw, s)) values (0, false).

(* ---------------------------------------------------------------- wiring members *)

Inductive pflow := PIn | POut.
Definition pflow_eqb (a b : pflow) : bool := match a, b with PIn, PIn | POut, POut => true | _, _ => false end.

(* In(shape) / Out(shape): a port member *)
Record pport := { pp_flow : pflow; pp_shape : shape }.
Definition p_in (sh : shape) : pport := {| pp_flow := PIn; pp_shape := sh |}.
Definition p_out (sh : shape) : pport := {| pp_flow := POut; pp_shape := sh |}.

(* a member of a component's signature: a port, or an interface with signature (flipped?, s); plus array dimensions *)
Inductive pbody (S : Type) := BShape (sh : shape) | BSig (flipped : bool) (s : S).
Arguments BShape {S} sh.
Arguments BSig {S} flipped s.
Record pmember (S : Type) := { pm_flow : pflow; pm_body : pbody S; pm_dims : list Z }.
Arguments pm_flow {S} p.
Arguments pm_body {S} p.
Arguments pm_dims {S} p.
Definition m_in {S} (b : pbody S) : pmember S := {| pm_flow := PIn; pm_body := b; pm_dims := [] |}.
Definition m_out {S} (b : pbody S) : pmember S := {| pm_flow := POut; pm_body := b; pm_dims := [] |}.
Definition m_port {S} (p : pport) : pmember S :=
  {| pm_flow := pp_flow p; pm_body := BShape (pp_shape p); pm_dims := [] |}.
(* Member.array(dims...): the new dimensions are prepended *)
Definition m_array {S} (m : pmember S) (dims : list Z) : pmember S :=
  {| pm_flow := pm_flow m; pm_body := pm_body m; pm_dims := dims ++ pm_dims m |}.

(* ---------------------------------------------------------------- dict with string keys, in insertion order *)

Definition pdict (V : Type) := list (string * V).
Fixpoint dict_set {V} (k : string) (v : V) (d : pdict V) : pdict V :=
  match d with
  | [] => [(k, v)]
  | (k', v') :: d' => if String.eqb k' k then (k', v) :: d' else (k', v') :: dict_set k v d'
  end.
(* d.update(e) / {..d, ..e} *)
Definition dict_update {V} (d e : pdict V) : pdict V := fold_left (fun acc kv => dict_set (fst kv) (snd kv) acc) e d.
Definition dict_has {V} (k : string) (d : pdict V) : bool := existsb (fun kv => String.eqb (fst kv) k) d.
Fixpoint dict_get {V} (k : string) (d : pdict V) : option V :=
  match d with
  | [] => None
  | (k', v) :: d' => if String.eqb k' k then Some v else dict_get k d'
  end.
(* a dict display {k1: v1, k2: v2, ...}: later duplicates overwrite *)
Definition dict_of {V} (l : list (string * V)) : pdict V := dict_update [] l.

(* ---------------------------------------------------------------- misc *)

(* amaranth.utils.exact_log2 *)
Definition exact_log2 (n : Z) : res Z := if is_pow2 n then Ok (Z.log2 n) else Err ValueError.

(* a statement the translator could not translate: it either returns (None) or raises *)
Definition opaque_step (o : option exn) : res unit := match o with None => Ok tt | Some e => Err e end.

Definition rmap {A B} (f : A -> B) (r : res A) : res B := match r with Ok a => Ok (f a) | Err e => Err e end.

(* ---------------------------------------------------------------- generic lemmas for the tie file *)

(* insertion sort of a dict by key, used to compare two dicts up to order *)
Fixpoint str_leb (a b : string) : bool :=
  match a, b with
  | EmptyString, _ => true
  | String _ _, EmptyString => false
  | String x a', String y b' =>
      let nx := Ascii.N_of_ascii x in let ny := Ascii.N_of_ascii y in
      if N.ltb nx ny then true else if N.ltb ny nx then false else str_leb a' b'
  end.
Fixpoint dins {V} (x : string * V) (l : pdict V) : pdict V :=
  match l with
  | [] => [x]
  | y :: l' => if str_leb (fst x) (fst y) then x :: l else y :: dins x l'
  end.
Fixpoint dsort {V} (l : pdict V) : pdict V := match l with [] => [] | x :: l' => dins x (dsort l') end.

Lemma dins_perm {V} (x : string * V) l : Permutation (x :: l) (dins x l).
Proof.
  induction l as [|y l IH]; cbn [dins]; [apply Permutation_refl|].
  destruct (str_leb (fst x) (fst y)); [apply Permutation_refl|].
  eapply perm_trans; [apply perm_swap|]. apply perm_skip, IH.
Qed.

Lemma dsort_perm {V} (l : pdict V) : Permutation l (dsort l).
Proof.
  induction l as [|x l IH]; cbn [dsort]; [apply perm_nil|].
  eapply perm_trans; [apply perm_skip, IH|]. apply dins_perm.
Qed.

(* equal after sorting => one is a rearrangement of the other *)
Lemma dsort_eq_perm {V} (a b : pdict V) : dsort a = dsort b -> Permutation a b.
Proof.
  intro H. eapply perm_trans; [apply dsort_perm|]. rewrite H. apply Permutation_sym, dsort_perm.
Qed.
