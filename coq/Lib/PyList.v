(* bisect on lists, specified as the length of the leading run (insertion point on sorted lists) *)
From Coq Require Import ZArith List Bool.
Import ListNotations.
Open Scope Z_scope.

Fixpoint bisect_right (l : list Z) (x : Z) : nat :=
  match l with [] => 0%nat | y :: l' => if y <=? x then S (bisect_right l' x) else 0%nat end.
Fixpoint bisect_left (l : list Z) (x : Z) : nat :=
  match l with [] => 0%nat | y :: l' => if y <? x then S (bisect_left l' x) else 0%nat end.

Fixpoint insert_at {A} (n : nat) (x : A) (l : list A) : list A :=
  match n, l with
  | O, _ => x :: l
  | S n', [] => [x]
  | S n', y :: l' => y :: insert_at n' x l'
  end.

Fixpoint assoc {V} (k : Z) (l : list (Z * V)) : option V :=
  match l with
  | [] => None
  | (k', v) :: l' => if k =? k' then Some v else assoc k l'
  end.
