(* Python containers and control flow as used by the shadow translator (harness/translate8.py).
   These are SPECIFIED here (like bisect in Lib/PyList.v), the code that uses them is translated.

   range(a, b)            a pair (a, b); iteration = range_list a b; `x in r` = in_range; equality by (start, stop)
                          (step is always 1 and the ranges of one memory map are non-empty)
   set / frozenset        `rset`: the elements as a duplicate-free list in SOME order plus the frozen flag.  Nothing
                          may depend on the order: the only iteration the translator accepts is through sorted().
   sorted(it, key=...)    py_sorted: stable insertion sort by the lexicographic order of the key tuples
   defaultdict(list)      `ddict V`: association list in insertion order (dicts keep insertion order, Python >= 3.7);
                          reading a missing key inserts the empty list (dd_touch)
   dict                   association list in insertion order, dict_set replaces in place or appends
   for ... break          py_for: the body returns the new loop state and whether it executed `break`
   str / f-string         a list of parts (literal text or an int), joined *)
From Coq Require Import ZArith List Bool String.
From Soc Require Import Lib.Res.
Import ListNotations.
Open Scope Z_scope.

(* ------------------------------------------------------------------ ranges *)
Definition rng := (Z * Z)%type.
Definition rstart (r : rng) : Z := fst r.
Definition rstop (r : rng) : Z := snd r.
Definition rng_eqb (a b : rng) : bool := (rstart a =? rstart b) && (rstop a =? rstop b).
Definition in_range (x : Z) (r : rng) : bool := (rstart r <=? x) && (x <? rstop r).
Definition range_list (a b : Z) : list Z := map (fun j => a + Z.of_nat j) (seq 0 (Z.to_nat (b - a))).

(* ------------------------------------------------------------------ sets of ranges *)
Record rset := mk_rset { rs_elems : list rng; rs_frozen : bool }.
Definition set_new : rset := {| rs_elems := []; rs_frozen := false |}.
Definition set_mem (r : rng) (s : rset) : bool := existsb (rng_eqb r) (rs_elems s).
(* set.add; a frozenset has no such method (AttributeError) *)
Definition set_add (r : rng) (s : rset) : res rset :=
  if rs_frozen s then Err OtherError
  else Ok (if set_mem r s then s else {| rs_elems := rs_elems s ++ [r]; rs_frozen := false |}).
Definition set_len (s : rset) : Z := Z.of_nat (List.length (rs_elems s)).
Definition set_freeze (s : rset) : rset := {| rs_elems := rs_elems s; rs_frozen := true |}.

(* ------------------------------------------------------------------ sorted *)
Fixpoint lex_ltb (a b : list Z) : bool :=
  match a, b with
  | [], [] => false
  | [], _ :: _ => true
  | _ :: _, [] => false
  | x :: a', y :: b' => (x <? y) || ((x =? y) && lex_ltb a' b')
  end.
(* x goes in front of the first element whose key is greater (stability) *)
Fixpoint ins_sorted {A} (key : A -> list Z) (x : A) (l : list A) : list A :=
  match l with
  | [] => [x]
  | y :: l' => if lex_ltb (key x) (key y) then x :: l else y :: ins_sorted key x l'
  end.
Definition py_sorted {A} (key : A -> list Z) (l : list A) : list A :=
  fold_left (fun acc x => ins_sorted key x acc) l [].

(* ------------------------------------------------------------------ dicts keyed by int *)
Definition ddict (V : Type) := list (Z * list V).
Fixpoint dd_get {V} (d : ddict V) (k : Z) : list V :=
  match d with [] => [] | (k', l) :: d' => if k =? k' then l else dd_get d' k end.
Fixpoint dd_has {V} (d : list (Z * V)) (k : Z) : bool :=
  match d with [] => false | (k', _) :: d' => (k =? k') || dd_has d' k end.
Definition dd_touch {V} (d : ddict V) (k : Z) : ddict V := if dd_has d k then d else d ++ [(k, [])].
(* registers[k].append(v) on a defaultdict(list) *)
Fixpoint dd_append {V} (d : ddict V) (k : Z) (v : V) : ddict V :=
  match d with
  | [] => [(k, [v])]
  | (k', l) :: d' => if k =? k' then (k', l ++ [v]) :: d' else (k', l) :: dd_append d' k v
  end.
(* d[k] = v on a plain dict *)
Fixpoint dict_set {V} (d : list (Z * V)) (k : Z) (v : V) : list (Z * V) :=
  match d with
  | [] => [(k, v)]
  | (k', v') :: d' => if k =? k' then (k', v) :: d' else (k', v') :: dict_set d' k v
  end.

(* ------------------------------------------------------------------ loops *)
Fixpoint py_for {A St} (l : list A) (body : A -> St -> res (St * bool)) (s : St) : res St :=
  match l with
  | [] => Ok s
  | x :: l' => match body x s with
               | Ok (s', brk) => if brk then Ok s' else py_for l' body s'
               | Err e => Err e
               end
  end.

(* while c: body — `fuel` rounds at most; running out of fuel is reported as OtherError *)
Fixpoint py_while {St} (fuel : nat) (cond : St -> res bool) (body : St -> res (St * bool)) (s : St) : res St :=
  match fuel with
  | O => Err OtherError
  | S f => match cond s with
           | Err e => Err e
           | Ok false => Ok s
           | Ok true => match body s with
                        | Ok (s', brk) => if brk then Ok s' else py_while f cond body s'
                        | Err e => Err e
                        end
           end
  end.

(* ------------------------------------------------------------------ strings *)
Inductive spart := SLit (s : string) | SInt (z : Z).
Definition pname := list spart.
(* a value that should be a str *)
Inductive pystr := VStr (n : pname) | VNotStr.
Definition is_str (v : pystr) : bool := match v with VStr _ => true | VNotStr => false end.
Definition sof (v : pystr) : pname := match v with VStr n => n | VNotStr => [] end.

(* possibly-None / possibly-non-int arguments (as in translate2) *)
Definition is_none (v : pyint) : bool := match v with VNone => true | _ => false end.
Definition is_int (v : pyint) : bool := match v with VInt _ => true | _ => false end.
Definition zof (v : pyint) : Z := match v with VInt z => z | _ => 0 end.
