(* How harness/translate12.py reads the Python values and control flow that occur in csr.Builder and
   csr.Bridge.__init__ (part of its trusted reading of Python; Lib/PyLoop.v supplies for_each / bind_st).

   An operation whose Python result the abstraction cannot tell (arithmetic or ordering on a value that
   is not known to be an int, the truth value of an unknown object, `.element.width` of something that is
   not a csr.Register, == between unknown objects) is Err OtherError.  The models never answer OtherError
   on these paths, so a tie lemma cannot hold if such an operation becomes reachable (e.g. because an
   isinstance guard was dropped). *)
From Coq Require Import ZArith List Bool String.
From Soc Require Import Lib.Res Lib.PyLoop Model.MemoryMap.
Import ListNotations.
Open Scope Z_scope.

(* an argument where a `str` is expected: a str (interned atom, 0 = the empty string), None, anything else *)
Inductive pystr := YStr (atom : Z) | YNone | YOther.

(* an object where a csr.Register is expected: a Register (identity, element.width) or another object *)
Inductive pyobj := OReg (id width : Z) | OOther (id : Z).

(* direction of a signature member: In(...) / Out(...) *)
Inductive pydir := DIn | DOut.

(* ---- possibly-non-int values *)
Definition is_int (v : pyint) : bool := match v with VInt _ => true | _ => false end.
Definition is_none (v : pyint) : bool := match v with VNone => true | _ => false end.
(* the value as an operand of + - * // % < <= ...: defined for ints only *)
Definition int_of (v : pyint) : res Z := match v with VInt z => Ok z | _ => Err OtherError end.

(* ---- possibly-non-str values *)
Definition str_is_str (s : pystr) : bool := match s with YStr _ => true | _ => false end.
Definition str_is_none (s : pystr) : bool := match s with YNone => true | _ => false end.
(* bool(s) *)
Definition str_truthy (s : pystr) : res bool :=
  match s with YStr a => Ok (negb (a =? 0)) | YNone => Ok false | YOther => Err OtherError end.
Definition atom_truthy (a : Z) : bool := negb (a =? 0).

(* ---- objects *)
Definition obj_id (o : pyobj) : Z := match o with OReg i _ => i | OOther i => i end.
Definition is_register (o : pyobj) : bool := match o with OReg _ _ => true | OOther _ => false end.
(* o.element.width *)
Definition elem_width (o : pyobj) : res Z := match o with OReg _ w => Ok w | OOther _ => Err OtherError end.

(* isinstance(x, C) for an argument that is either an instance of the external class C or not *)
Definition is_some {X : Type} (o : option X) : bool := match o with Some _ => true | None => false end.

(* ---- a value as an item of a tuple of name parts *)
Definition part_of_str (s : pystr) : rawpart := match s with YStr a => RStr a | _ => ROther end.
Definition part_of_int (v : pyint) : rawpart := match v with VInt z => RInt z | _ => ROther end.

(* a == b on two such items: a str never equals an int; an unknown object compares unknown *)
Definition rawpart_eq (a b : rawpart) : res bool :=
  match a, b with
  | RStr x, RStr y => Ok (x =? y)
  | RInt x, RInt y => Ok (x =? y)
  | RStr _, RInt _ | RInt _, RStr _ => Ok false
  | _, _ => Err OtherError
  end.

(* ---- list.pop(): (popped item, remaining list); IndexError is Err OtherError as in Model/Builder.v *)
Definition py_pop {X : Type} (l : list X) : res (X * list X) :=
  match l with [] => Err OtherError | x :: _ => Ok (last l x, removelast l) end.

(* ---- a dict with int keys (id(obj)), in insertion order *)
Definition odict (V : Type) := list (Z * V).
Definition od_has {V : Type} (d : odict V) (k : Z) : bool := existsb (fun kv => fst kv =? k) d.
(* d[k] = v: an existing key keeps its position *)
Fixpoint od_set {V : Type} (d : odict V) (k : Z) (v : V) : odict V :=
  match d with
  | [] => [(k, v)]
  | (k', v') :: d' => if k' =? k then (k', v) :: d' else (k', v') :: od_set d' k v
  end.
Fixpoint od_get {V : Type} (d : odict V) (k : Z) : res V :=
  match d with [] => Err KeyError | (k', v) :: d' => if k' =? k then Ok v else od_get d' k end.
Definition od_values {V : Type} (d : odict V) : list V := map snd d.

(* ---- methods that change object state and may raise: (state when the call ends, outcome) *)
(* sequencing after a call of another method of the same object *)
Definition bind_call {S A B : Type} (r : S * res A) (k : S -> A -> S * res B) : S * res B :=
  match r with (s, Ok a) => k s a | (s, Err e) => (s, Err e) end.

(* `with obj.cm(args): body` for a context manager written as
       @contextmanager
       def cm(self, args):  <enter>;  try: yield  finally: <exit>
   contextlib runs <enter> up to the yield; if that raises the body is not run and <exit> neither (the
   try block was not entered).  Otherwise the body runs; whether it ends normally (generator resumed by
   next()) or raises (exception thrown into the generator at the yield), the finally clause runs; an
   exception raised by <exit> replaces the body's outcome, otherwise the body's outcome stands. *)
Definition with_ctx {S A : Type} (enter exit : S -> S * res unit) (body : S -> S * res A) (s : S) : S * res A :=
  match enter s with
  | (s1, Err e) => (s1, Err e)
  | (s1, Ok _) =>
      let '(s2, r) := body s1 in
      let '(s3, x) := exit s2 in
      (s3, match x with Err e => Err e | Ok _ => r end)
  end.

(* ---- generic facts *)
Lemma od_has_app {V : Type} (d1 d2 : odict V) k : od_has (d1 ++ d2) k = od_has d1 k || od_has d2 k.
Proof. unfold od_has. apply existsb_app. Qed.

Lemma od_set_fresh {V : Type} (d : odict V) k v : od_has d k = false -> od_set d k v = d ++ [(k, v)].
Proof.
  induction d as [|[k' v'] d IH]; intros H; [reflexivity|].
  unfold od_has in H. cbn [existsb fst] in H. apply orb_false_iff in H. destruct H as [H1 H2].
  cbn [od_set]. rewrite H1. cbn [app]. f_equal. apply IH. exact H2.
Qed.

Lemma py_pop_snoc {X : Type} (l : list X) x : py_pop (l ++ [x]) = Ok (x, l).
Proof.
  unfold py_pop. destruct (l ++ [x]) eqn:E; [destruct l; discriminate|].
  rewrite <- E. rewrite last_last, removelast_last. reflexivity.
Qed.
