(* Python control flow and containers as read by harness/translate4.py (part of its trusted reading of Python):
   `for x in l: body` with break / continue / return / raise and loop-carried variables, enumerate, len,
   indexing with IndexError, slices, and a dict seen through its keys in insertion order. *)
From Coq Require Import ZArith List Bool.
From Soc Require Import Lib.Res.
Import ListNotations.
Open Scope Z_scope.

(* how one execution of a loop body ends: fell off its end or `continue` (Next), `break` (Brk), `return v` (Ret);
   `raise` is Err.  S is the tuple of loop-carried variables, R the return type of the enclosing function. *)
Inductive ctl (S R : Type) := Next (s : S) | Brk (s : S) | Ret (r : R).
Arguments Next {S R} s.
Arguments Brk {S R} s.
Arguments Ret {S R} r.

(* how the whole loop ended: ran out of items or `break` (Fell, with the final values of the carried variables),
   or `return v` inside the body *)
Inductive fin (S R : Type) := Fell (s : S) | Returned (r : R).
Arguments Fell {S R} s.
Arguments Returned {S R} r.

Fixpoint for_each {X S R : Type} (body : X -> S -> res (ctl S R)) (l : list X) (s : S) : res (fin S R) :=
  match l with
  | [] => Ok (Fell s)
  | x :: l' =>
      match body x s with
      | Err e => Err e
      | Ok (Next s') => for_each body l' s'
      | Ok (Brk s') => Ok (Fell s')
      | Ok (Ret r) => Ok (Returned r)
      end
  end.

(* the statements after a loop, at function level and inside the body of an enclosing loop *)
Definition after_loop {S R : Type} (r : res (fin S R)) (k : S -> res R) : res R :=
  match r with Err e => Err e | Ok (Fell s) => k s | Ok (Returned v) => Ok v end.
Definition after_loop_in {S S' R : Type} (r : res (fin S R)) (k : S -> res (ctl S' R)) : res (ctl S' R) :=
  match r with Err e => Err e | Ok (Fell s) => k s | Ok (Returned v) => Ok (Ret v) end.

Definition py_len {X : Type} (l : list X) : Z := Z.of_nat (length l).

Fixpoint enumerate_from {X : Type} (i : Z) (l : list X) : list (Z * X) :=
  match l with [] => [] | x :: l' => (i, x) :: enumerate_from (i + 1) l' end.
Definition py_enumerate {X : Type} (l : list X) : list (Z * X) := enumerate_from 0 l.

(* l[i]: negative indices count from the end; IndexError is Err OtherError (as Model.MemoryMap.conflict_loop has it) *)
Definition py_index {X : Type} (l : list X) (i : Z) : res X :=
  let j := if i <? 0 then i + py_len l else i in
  if j <? 0 then Err OtherError
  else match nth_error l (Z.to_nat j) with Some x => Ok x | None => Err OtherError end.

(* l[i:] and l[:i] *)
Definition py_slice_from {X : Type} (l : list X) (i : Z) : list X :=
  skipn (Z.to_nat (if i <? 0 then Z.max 0 (i + py_len l) else i)) l.
Definition py_slice_to {X : Type} (l : list X) (i : Z) : list X :=
  firstn (Z.to_nat (if i <? 0 then Z.max 0 (i + py_len l) else i)) l.

Definition py_nonempty {X : Type} (l : list X) : bool := match l with [] => false | _ => true end.

(* a dict seen through its keys, in insertion order; eqb is the == of the keys *)
Definition dict_has {K : Type} (eqb : K -> K -> bool) (d : list K) (k : K) : bool := existsb (eqb k) d.
Definition dict_set {K : Type} (eqb : K -> K -> bool) (d : list K) (k : K) : list K :=
  if dict_has eqb d k then d else d ++ [k].
Definition dict_update {K : Type} (eqb : K -> K -> bool) (d other : list K) : list K :=
  fold_left (dict_set eqb) other d.
(* d[k], for its KeyError only (the values are not represented) *)
Definition dict_get {K : Type} (eqb : K -> K -> bool) (d : list K) (k : K) : res unit :=
  if dict_has eqb d k then Ok tt else Err KeyError.

(* sequencing in a method that changes object state s and may raise: the exception carries the state reached *)
Definition bind_st {S A B : Type} (s : S) (r : res A) (k : A -> S * res B) : S * res B :=
  match r with Ok a => k a | Err e => (s, Err e) end.

(* generic facts *)
Lemma for_each_ext {X S R : Type} (f g : X -> S -> res (ctl S R)) :
  (forall x s, f x s = g x s) -> forall l s, for_each f l s = for_each g l s.
Proof.
  intros H. induction l as [|x l IH]; intros s; cbn [for_each]; [reflexivity|].
  rewrite H. destruct (g x s) as [[s'|s'|r]|e]; auto.
Qed.

Lemma py_index_app {X : Type} (pre l : list X) :
  py_index (pre ++ l) (py_len pre) = match l with [] => Err OtherError | x :: _ => Ok x end.
Proof.
  unfold py_index, py_len.
  destruct (Z.of_nat (length pre) <? 0) eqn:E; [apply Z.ltb_lt in E; pose proof (Nat2Z.is_nonneg (length pre)) as H; exfalso; apply (Z.lt_irrefl 0); eapply Z.le_lt_trans; eauto|].
  rewrite E. rewrite Nat2Z.id.
  replace (length pre) with (length pre + 0)%nat by apply Nat.add_0_r.
  rewrite nth_error_app2 by (rewrite Nat.add_0_r; apply Nat.le_refl).
  rewrite Nat.add_0_r, Nat.sub_diag. destruct l; reflexivity.
Qed.

Lemma py_slice_from_app {X : Type} (pre l : list X) : py_slice_from (pre ++ l) (py_len pre) = l.
Proof.
  unfold py_slice_from, py_len.
  destruct (Z.of_nat (length pre) <? 0) eqn:E; [apply Z.ltb_lt in E; pose proof (Nat2Z.is_nonneg (length pre)) as H; exfalso; apply (Z.lt_irrefl 0); eapply Z.le_lt_trans; eauto|].
  rewrite Nat2Z.id. rewrite skipn_app, skipn_all, Nat.sub_diag. reflexivity.
Qed.

Lemma py_len_app1 {X : Type} (pre : list X) (x : X) : py_len (pre ++ [x]) = py_len pre + 1.
Proof. unfold py_len. rewrite app_length. cbn [length]. rewrite Nat2Z.inj_add. reflexivity. Qed.
