(* How harness/translate5.py reads the Python objects met in the lookup methods of memory.py
   (ResourceInfo.__init__, MemoryMap.resources / windows / window_patterns / _translate / all_resources /
   find_resource / decode_address) as values of Model/MemoryMap.v.  Definitions only; the generated file
   Gen/LookupGen.v refers to them, Gen/TieLookup.v proves the generated methods equal to the model.

   object stored in the range map (a resource or a window)   ->  assign      (AR id | AW id)
   range object                                               ->  prange      (start, stop, step)
   self._ranges.items()                                       ->  m_ranges self, one entry per (range, object)
   self._resources   (dict keyed by id(object))               ->  m_ress self, looked up with res_lookup
   self._windows     (dict keyed by id(object))               ->  m_wins self, looked up with win_lookup
   a window object (a MemoryMap)                              ->  the child map held in m_wins
   str over the alphabet '0' '1' '-'                          ->  list Z  (0, 1, 2) *)
From Coq Require Import ZArith List Bool.
From Soc Require Import Lib.Res Model.MemoryMap.
Import ListNotations.
Open Scope Z_scope.

(* ------------------------------------------------------------------ ranges *)

Record prange := { p_start : Z; p_stop : Z; p_step : Z }.

Definition range_of_entry (x : entry) : prange :=
  {| p_start := e_start x; p_stop := e_stop x; p_step := e_step x |}.
(* add_resource records range(start, stop): step 1 *)
Definition range_of_res (r : resent) : prange :=
  {| p_start := r_start r; p_stop := r_stop r; p_step := 1 |}.
Definition range_of_win (w : winent) : prange :=
  {| p_start := w_start w; p_stop := w_stop w; p_step := w_step w |}.

(* ------------------------------------------------------------------ objects and the two dictionaries *)

(* identity of an object as an observer sees it (the harness numbers resources and maps) *)
Definition asg_id (a : assign) : Z := match a with AR i => i | AW i => i end.

(* self._resources.get(id(a)): a window object is never a key of _resources, and conversely *)
Definition res_lookup (ress : list resent) (a : assign) : option resent :=
  match a with AR id => find_res id ress | AW _ => None end.
Definition win_lookup (wins : list (winent * mmap)) (a : assign) : option (winent * mmap) :=
  match a with AW id => find_win id wins | AR _ => None end.

Definition is_some {X} (o : option X) : bool := match o with Some _ => true | None => false end.

(* d[k] *)
Definition dict_get {X} (o : option X) : res X := match o with Some v => Ok v | None => Err KeyError end.

(* the MemoryMap behind an object reference met inside a method of `self`: objects are only ever resolved
   through self._windows; anything else has no model *)
Definition deref_window (wins : list (winent * mmap)) (a : assign) : res mmap :=
  match win_lookup wins a with Some wc => Ok (snd wc) | None => Err OtherError end.

(* ------------------------------------------------------------------ strings over '0' '1' '-' *)

(* f"{v:0{w}b}": zero-padded to w characters, more if v needs them; the sign of a negative number is the
   character '-' (code 2) and counts towards the width *)
Definition py_format_0b (v w : Z) : list Z :=
  if v <? 0 then 2 :: fmt_bin (- v) (w - 1) else fmt_bin v w.

(* s * n  (empty when n <= 0) *)
Definition py_str_repeat (s : list Z) (n : Z) : list Z := concat (repeat s (Z.to_nat n)).

(* ------------------------------------------------------------------ generators *)

(* a generator that runs to exhaustion is the list of what it yields; one that raises is the exception *)
Definition yield1 {X} (x : X) : res (list X) := Ok [x].
