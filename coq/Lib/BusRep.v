(* Fixed vocabulary of the bus-constructor translator (harness/translate10.py -> Gen/DecArbGen.v): how the Python
   objects handled by csr.Decoder / wishbone.Decoder / wishbone.Arbiter `__init__`, `align_to` and `add` are
   represented in the generated Gallina.  Nothing here is translated; these are the SPECIFIED parts (what an
   interface object answers to isinstance / attribute reads / hasattr, a dict store, amaranth's exact_log2 and
   flipped()), in the same sense as bisect in Lib/PyList.v. *)
From Coq Require Import String ZArith List Bool.
From Soc Require Import Lib.Res.
Import ListNotations.
Open Scope Z_scope.

(* ---------------------------------------------------------------- wishbone.Feature *)

(* the members of `class Feature(enum.Enum)`; their string values are read from the source on every run
   (generated Feature_members), only the member NAMES are fixed here *)
Inductive feature := ERR | RTY | STALL | LOCK | CTI | BTE.

Definition feature_eqb (a b : feature) : bool :=
  match a, b with
  | ERR, ERR | RTY, RTY | STALL, STALL | LOCK, LOCK | CTI, CTI | BTE, BTE => true
  | _, _ => false
  end.

(* `f in features` for the frozenset a Signature keeps: the set is represented by any list of its elements *)
Definition feat_in (f : feature) (l : list feature) : bool := existsb (feature_eqb f) l.

(* Feature(s) for a string s: the member whose value is s, otherwise ValueError *)
Definition enum_of_string {E} (members : list (E * string)) (s : string) : res E :=
  match find (fun p => String.eqb (snd p) s) members with
  | Some p => Ok (fst p)
  | None => Err ValueError
  end.

(* ---------------------------------------------------------------- interface objects *)

(* what the translated methods can observe of a bus-like argument:
     OWb   a wishbone.Interface (fl = false) or a wiring.FlippedInterface around one (fl = true)
     OCsr  the same for csr.Interface
     OOther  any other object (fl = true: a FlippedInterface around something that is neither); it has none of
             the attributes the methods read
   `mm` is the identity of the MemoryMap assigned to the interface (None: never assigned; reading .memory_map
   then raises AttributeError).  A FlippedInterface forwards attribute reads and hasattr to the object it wraps;
   isinstance(x, Interface) is False for it. *)
Record wbgeom := { wb_aw : Z; wb_dw : Z; wb_g : Z; wb_feats : list feature }.
Record csrgeom := { csr_aw : Z; csr_dw : Z }.

Inductive bobj :=
| OWb (fl : bool) (g : wbgeom) (mm : option Z)
| OCsr (fl : bool) (g : csrgeom) (mm : option Z)
| OOther (fl : bool).

(* isinstance(x, wiring.FlippedInterface) *)
Definition is_flipped (o : bobj) : bool :=
  match o with OWb fl _ _ => fl | OCsr fl _ _ => fl | OOther fl => fl end.

(* amaranth.lib.wiring.flipped(x): unwraps a FlippedInterface, wraps anything else *)
Definition flipped (o : bobj) : bobj :=
  match o with
  | OWb fl g m => OWb (negb fl) g m
  | OCsr fl g m => OCsr (negb fl) g m
  | OOther fl => OOther (negb fl)
  end.

(* isinstance(x, Interface) inside wishbone/bus.py and inside csr/bus.py *)
Definition isinstance_wb (o : bobj) : bool := match o with OWb false _ _ => true | _ => false end.
Definition isinstance_csr (o : bobj) : bool := match o with OCsr false _ _ => true | _ => false end.

(* attribute reads; AttributeError is OtherError *)
Definition attr_addr_width (o : bobj) : res Z :=
  match o with OWb _ g _ => Ok (wb_aw g) | OCsr _ g _ => Ok (csr_aw g) | OOther _ => Err OtherError end.
Definition attr_data_width (o : bobj) : res Z :=
  match o with OWb _ g _ => Ok (wb_dw g) | OCsr _ g _ => Ok (csr_dw g) | OOther _ => Err OtherError end.
Definition attr_granularity (o : bobj) : res Z :=
  match o with OWb _ g _ => Ok (wb_g g) | _ => Err OtherError end.
Definition attr_features (o : bobj) : res (list feature) :=
  match o with OWb _ g _ => Ok (wb_feats g) | _ => Err OtherError end.
Definition attr_memory_map (o : bobj) : res Z :=
  match o with
  | OWb _ _ (Some m) | OCsr _ _ (Some m) => Ok m
  | _ => Err OtherError
  end.

(* `x.memory_map = m`.  The validation done by the property setter (Interface.memory_map.setter: the map's widths
   against the interface's) is NOT represented: for an interface the store is taken to succeed. *)
Definition set_memory_map (o : bobj) (m : Z) : res bobj :=
  match o with
  | OWb fl g _ => Ok (OWb fl g (Some m))
  | OCsr fl g _ => Ok (OCsr fl g (Some m))
  | OOther _ => Err OtherError
  end.

(* hasattr(x, s), specified for the port names only: the eight fixed Wishbone ports and the six optional ones
   (present iff the feature is), the five CSR ports.  Every other string is OUTSIDE the representation: the
   answer is Err OtherError, so that a tie lemma cannot hold for code that asks (fail closed). *)
Definition wb_fixed_ports : list string :=
  ["adr"%string; "dat_w"%string; "dat_r"%string; "sel"%string; "cyc"%string; "stb"%string; "we"%string; "ack"%string].
Definition wb_opt_ports : list (feature * string) :=
  [(ERR, "err"%string); (RTY, "rty"%string); (STALL, "stall"%string); (LOCK, "lock"%string); (CTI, "cti"%string); (BTE, "bte"%string)].
Definition csr_ports : list string := ["addr"%string; "r_data"%string; "r_stb"%string; "w_data"%string; "w_stb"%string].

Definition str_in (s : string) (l : list string) : bool := existsb (String.eqb s) l.

Definition is_port_name (s : string) : bool :=
  str_in s wb_fixed_ports || str_in s (map snd wb_opt_ports) || str_in s csr_ports.

Definition hasattr_port (o : bobj) (s : string) : res bool :=
  if negb (is_port_name s) then Err OtherError else
  match o with
  | OWb _ g _ =>
      Ok (str_in s wb_fixed_ports ||
          existsb (fun p => String.eqb s (snd p) && feat_in (fst p) (wb_feats g)) wb_opt_ports)
  | OCsr _ _ _ => Ok (str_in s csr_ports)
  | OOther _ => Ok false
  end.

(* what wiring.Component.__init__ creates for a member `In(sig)` / `Out(sig)`: sig.create(), flipped for In *)
Definition member_wb (is_in : bool) (g : wbgeom) : bobj := OWb is_in g None.
Definition member_csr (is_in : bool) (g : csrgeom) : bobj := OCsr is_in g None.

(* ---------------------------------------------------------------- containers *)

(* `d[k] = v` on a dict keyed by object identity (insertion ordered): an existing key keeps its position *)
Fixpoint dict_store {V} (k : Z) (v : V) (d : list (Z * V)) : list (Z * V) :=
  match d with
  | [] => [(k, v)]
  | (k', v') :: d' => if k' =? k then (k', v) :: d' else (k', v') :: dict_store k v d'
  end.

(* `l.append(x)` *)
Definition list_append {V} (l : list V) (x : V) : list V := l ++ [x].

(* ---------------------------------------------------------------- amaranth.utils.exact_log2 *)

Definition py_bit_length (z : Z) : Z := if z <=? 0 then 0 else Z.log2 z + 1.
(* `if n <= 0 or (n & (n - 1)): raise ValueError`; `return (n - 1).bit_length()` *)
Definition py_exact_log2 (n : Z) : res Z :=
  if (n <=? 0) || negb (Z.land n (n - 1) =? 0) then Err ValueError else Ok (py_bit_length (n - 1)).

(* ---------------------------------------------------------------- control *)

(* a statement sequence with mutable state S: the result is (final state, outcome); an exception keeps the state
   reached when it was raised *)
Definition bindS {S A B} (r : res A) (st : S) (k : A -> S * res B) : S * res B :=
  match r with Ok a => k a | Err e => (st, Err e) end.

(* a call into another object whose state lives in the heap H: Ok (new heap, value), or the exception with the
   heap as it was (the callee is taken not to have stored anything when it raises: for MemoryMap.add_window /
   align_to that is what Model/MemoryMap.v says, all raises precede all stores) *)
Definition callS {H S A B} (r : res (H * A)) (st : S) (k : H -> A -> S * res B) : S * res B :=
  match r with Ok (h, a) => k h a | Err e => (st, Err e) end.

(* `for x in l: body` where the body only validates: Ok true = next item, Ok false = `break` *)
Fixpoint loop_each {X} (body : X -> res bool) (l : list X) : res unit :=
  match l with
  | [] => Ok tt
  | x :: l' =>
      match body x with
      | Err e => Err e
      | Ok true => loop_each body l'
      | Ok false => Ok tt
      end
  end.

(* int(x) of an argument typed pyint, and the tests the code makes on it *)
Definition bi_zof (v : pyint) : Z := match v with VInt z => z | _ => 0 end.
Definition bi_is_none (v : pyint) : bool := match v with VNone => true | _ => false end.
