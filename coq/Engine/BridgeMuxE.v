(* sx codec for the COMPOSITE model: WishboneCSRBridge in front of a csr.Multiplexer
   (Model/BridgeMuxSpec.v: the bridge model and the multiplexer model wired port to port).

   case   = L [ A cdw; A wdw; A caw; L regs; ov; L cycles ]
            cdw  = CSR data width (memory map / multiplexer / bridge granule)
            wdw  = the `data_width` argument of WishboneCSRBridge (always given)
            caw  = CSR address width
            regs = [start; stop; width; readable; writable]     (Engine/MuxE.v dec_reg)
            ov   = L [] | L [A shadow_overlaps]
   cycle  = L [cyc; stb; we; adr; sel; dat_w; L rvals]          rvals = element.r_data of every register
   result = L [A (-2); A code]      bridge constructor refused (1 = ValueError, 2 = TypeError)
          | L [A (-3)]              shadow preparation ran out of fuel (never, see Proofs/MuxPrepare.v)
          | L [ geometry ; L [A Sr; A Sw] ; L rows ]
   row    = L [ A ack; A dat_r;                                  Wishbone side of the bridge
                L [A addr; A r_stb; A w_stb; A w_data; A r_data]; the CSR bus between the two
                L r_stb; L w_stb; L w_data ]                      element side, one entry per register

   The configuration is built exactly as the two component engines do it: the bridge's by
   WbCsrBridge.construct / cfg_of (Engine/WbCsrBridgeE.v), the multiplexer's by Mux.mk_cfg
   (Engine/MuxE.v); the run is BridgeMuxSpec.crun from cinit.

   Extraction note.  Model/BridgeMuxSpec.v names its two components through module aliases
   (`Module B := Soc.Model.WbCsrBridge`), and Coq's monolithic extraction (Extract/Extract.v) refuses
   any constant living in a file that contains such an alias.  The executable codec below therefore runs
   `crun_e`, a literal transcription of BridgeMuxSpec.crun (same wiring, same order) over the input
   record `xinp`, and Proofs/BridgeMuxEngine.v PROVES `crun_e bc mc s xs = crun bc mc s (map to_cinp xs)`
   and `run_bridgemux` = the codec around BridgeMuxSpec.crun (Properties/C10Engine.v,
   C10_engine_runs_composite); nothing is trusted about the transcription. *)
From Coq Require Import ZArith List Bool.
From Soc Require Import Lib.Sx Lib.Bits.
From Soc Require Model.WbCsrBridge Model.Mux.
From Soc Require Engine.MuxE Engine.WbCsrBridgeE.
Import ListNotations.
Open Scope Z_scope.

(* inputs of the composite in one cycle (the fields of BridgeMuxSpec.cinp) *)
Record xinp := { e_cyc : bool; e_stb : bool; e_we : bool; e_adr : Z; e_sel : Z; e_dat_w : Z;
                 e_rvals : list Z }.

Definition est : Type := (WbCsrBridge.st * Mux.st)%type.

(* BridgeMuxSpec.bridge_in / bridge_out / mux_in / mux_out / cinit / cnext / crun, transcribed *)
Definition bridge_in_e (mc : Mux.cfg) (s : est) (x : xinp) : WbCsrBridge.inp :=
  {| WbCsrBridge.cyc := e_cyc x; WbCsrBridge.stb := e_stb x; WbCsrBridge.we := e_we x;
     WbCsrBridge.adr := e_adr x; WbCsrBridge.sel := e_sel x; WbCsrBridge.dat_w := e_dat_w x;
     WbCsrBridge.r_data := Mux.bus_rdata mc (snd s) |}.
Definition bridge_out_e (bc : WbCsrBridge.cfg) (mc : Mux.cfg) (s : est) (x : xinp) : WbCsrBridge.outp :=
  WbCsrBridge.out bc (fst s) (bridge_in_e mc s x).
Definition mux_in_e (bc : WbCsrBridge.cfg) (mc : Mux.cfg) (s : est) (x : xinp) : Mux.inp :=
  let bo := bridge_out_e bc mc s x in
  {| Mux.i_addr := WbCsrBridge.o_addr bo; Mux.i_rstb := WbCsrBridge.o_r_stb bo;
     Mux.i_wstb := WbCsrBridge.o_w_stb bo; Mux.i_wdata := WbCsrBridge.o_w_data bo;
     Mux.i_rvals := e_rvals x |}.
Definition mux_out_e (bc : WbCsrBridge.cfg) (mc : Mux.cfg) (s : est) (x : xinp) : Mux.outp :=
  Mux.out mc (snd s) (mux_in_e bc mc s x).
Definition cinit_e (mc : Mux.cfg) : est := (WbCsrBridge.init, Mux.init mc).
Definition cnext_e (bc : WbCsrBridge.cfg) (mc : Mux.cfg) (s : est) (x : xinp) : est :=
  (WbCsrBridge.next bc (fst s) (bridge_in_e mc s x), Mux.next mc (snd s) (mux_in_e bc mc s x)).
Fixpoint crun_e (bc : WbCsrBridge.cfg) (mc : Mux.cfg) (s : est) (xs : list xinp)
  : list (WbCsrBridge.outp * Mux.outp) :=
  match xs with
  | [] => []
  | x :: xs' => (bridge_out_e bc mc s x, mux_out_e bc mc s x) :: crun_e bc mc (cnext_e bc mc s x) xs'
  end.

Definition dec_xinp (s : sx) : option xinp :=
  match s with
  | L [A c; A s'; A w; A a; A se; A d; L vs] =>
      match getZs vs with
      | Some l => Some {| e_cyc := z2b c; e_stb := z2b s'; e_we := z2b w; e_adr := a; e_sel := se;
                          e_dat_w := d; e_rvals := l |}
      | None => None
      end
  | _ => None
  end.

Definition dec_ov (s : sx) : option (option Z) :=
  match s with
  | L [] => Some None
  | L [A v] => Some (Some v)
  | _ => None
  end.

Definition enc_row (o : WbCsrBridge.outp * Mux.outp) : sx :=
  let (bo, mo) := o in
  L [ A (b2z (WbCsrBridge.o_ack bo)); A (WbCsrBridge.o_dat_r bo);
      zl [WbCsrBridge.o_addr bo; b2z (WbCsrBridge.o_r_stb bo); b2z (WbCsrBridge.o_w_stb bo);
          WbCsrBridge.o_w_data bo; Mux.o_rdata mo];
      zl (map b2z (Mux.o_rstb mo)); zl (map b2z (Mux.o_wstb mo)); zl (Mux.o_wdata mo) ].

(* the codec around an arbitrary runner of the composite (instantiated with crun_e here, shown equal to
   the instance with BridgeMuxSpec.crun in Proofs/BridgeMuxEngine.v) *)
Definition run_with (runner : WbCsrBridge.cfg -> Mux.cfg -> list xinp -> list (WbCsrBridge.outp * Mux.outp))
                    (s : sx) : sx :=
  match s with
  | L [A cdw; A wdw; A caw; L rs; ov; L cycles] =>
      match mapM MuxE.dec_reg rs, dec_ov ov, mapM dec_xinp cycles with
      | Some regs, Some ovo, Some xs =>
          (* precondition of both modelled constructors: an existing csr.Interface / MemoryMap *)
          if (caw <=? 0) || (cdw <=? 0) then bad 2 else
          let kc := {| WbCsrBridge.k_caw := caw; WbCsrBridge.k_cdw := cdw; WbCsrBridge.k_dw := Some wdw |} in
          match WbCsrBridge.construct kc with
          | WbCsrBridge.Err e => L [A (-2); A (WbCsrBridgeE.exn_code e)]
          | WbCsrBridge.Ok g =>
              match Mux.mk_cfg cdw regs ovo with
              | None => L [A (-3)]
              | Some mc =>
                  L [ WbCsrBridgeE.enc_geom g; zl [Mux.c_Sr mc; Mux.c_Sw mc];
                      L (map enc_row (runner (WbCsrBridge.cfg_of kc g) mc xs)) ]
              end
          end
      | _, _, _ => bad 1
      end
  | _ => bad 0
  end.

Definition run_bridgemux (s : sx) : sx := run_with (fun bc mc xs => crun_e bc mc (cinit_e mc) xs) s.
