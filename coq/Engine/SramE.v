(* sx codec for the SRAM model.
   case   = L [ L [size; dw; gran; A writable; L init]; L cycles ]
            size/dw/gran : L [A z] (int z) | L [A z; A 0] (float equal to z) | L [] (None) | L [A 0; A 0; A 0] (other non-int)
            cycle        : L [A cyc; A stb; A we; A adr; A sel; A dat_w]
   result = L [A 0; geometry; L rows]   with row = L [A ack; A dat_r; L memory-image]
          | L [A (-2); A 1] (TypeError) | L [A (-2); A 2] (ValueError) *)
From Coq Require Import ZArith List Bool.
From Soc Require Import Lib.Sx Lib.Bits Model.Sram.
Import ListNotations.
Open Scope Z_scope.

Definition dec_pyarg (s : sx) : option pyarg :=
  match s with
  | L [A z] => Some (VInt z)
  | L [A z; A 0] => Some (VFloat z)
  | L [] => Some VNone
  | L [A 0; A 0; A 0] => Some VBad
  | _ => None
  end.

Definition dec_inp (s : sx) : option inp :=
  match getZL s with
  | Some [c; st; w; a; se; d] =>
      Some {| cyc := z2b c; stb := z2b st; we := z2b w; adr := a; sel := se; dat_w := d |}
  | _ => None
  end.

Definition enc_out (o : outp) : sx := L [A (b2z (o_ack o)); A (o_dat_r o); zl (o_mem o)].

Definition enc_geom (g : geom) : sx :=
  zl [g_aw g; g_dw g; nsel g; g_mmaw g; g_gran g; g_depth g; g_size g].

Definition run_sram (s : sx) : sx :=
  match s with
  | L [L [size; dw; gran; A wr; init]; L cycles] =>
      match dec_pyarg size, dec_pyarg dw, dec_pyarg gran, getZL init, mapM dec_inp cycles with
      | Some sz, Some d, Some g, Some ini, Some tr =>
          match construct sz d g (z2b wr) ini with
          | Err TypeError => L [A (-2); A 1]
          | Err ValueError => L [A (-2); A 2]
          | Ok (ge, rows0) => L [A 0; enc_geom ge; L (map enc_out (run ge (init_state rows0) tr))]
          end
      | _, _, _, _, _ => bad 1
      end
  | _ => bad 0
  end.
