(* sx codec for the GPIO model: case = L [L [pins; aw; dw; stages]; L cycles]
   constructor arguments: L [A z] = the int z, L [] = None, L [L []] = some non-int object
   cycle = L [A addr; A r_stb; A w_stb; A w_data; A pins_i]
   result: accepted  -> L [A 0; L [L [start; stop] x 4]; L [L [A r_data; L o; L oe; L alt] per cycle]]
           refused   -> L [A (-2); A exn_code] *)
From Coq Require Import ZArith List Bool.
From Soc Require Import Lib.Sx Lib.Bits Lib.Res Model.Gpio.
From Soc Require Model.Mux.
Import ListNotations.
Open Scope Z_scope.

Definition dec_pyint (s : sx) : option pyint :=
  match s with
  | L [A z] => Some (VInt z)
  | L [] => Some VNone
  | L [L []] => Some VBad
  | _ => None
  end.

Definition dec_params (s : sx) : option params :=
  match s with
  | L [a; b; c; d] =>
      match dec_pyint a, dec_pyint b, dec_pyint c, dec_pyint d with
      | Some pa, Some pb, Some pc, Some pd => Some {| p_pins := pa; p_aw := pb; p_dw := pc; p_stages := pd |}
      | _, _, _, _ => None
      end
  | _ => None
  end.

Definition dec_bus (s : sx) : option bus_in :=
  match getZL s with
  | Some [a; r; w; d; p] =>
      Some {| b_addr := a; b_rstb := z2b r; b_wstb := z2b w; b_wdata := d; b_pins := p |}
  | _ => None
  end.

Definition enc_out (o : outp) : sx :=
  L [A (o_rdata o); zl (map (fun p => b2z (po_o p)) (o_pins o)); zl (map (fun p => b2z (po_oe p)) (o_pins o));
     zl (map (fun p => b2z (po_alt p)) (o_pins o))].

Definition enc_reg (r : Mux.reg) : sx := zl [Mux.r_start r; Mux.r_stop r].

(* second case shape: the Output register alone, L [A 1; A pins; L [L [w_stb; w_data; set; clr] ...]]
   result L [A 1; L [L [A r_data; L data bits] per cycle]] *)
Definition dec_oreg (s : sx) : option oreg_in :=
  match getZL s with
  | Some [w; d; st; cl] => Some {| q_wstb := z2b w; q_wdata := d; q_set := st; q_clr := cl |}
  | _ => None
  end.

Definition run_gpio (s : sx) : sx :=
  match s with
  | L [A 1; A n; L cycles] =>
      match mapM dec_oreg cycles with
      | Some is => L [A 1; L (map (fun o => L [A (fst o); zl (map b2z (snd o))])
                                  (oreg_run (repeat false (Z.to_nat n)) is))]
      | None => bad 2
      end
  | L [p; L cycles] =>
      match dec_params p, mapM dec_bus cycles with
      | Some pa, Some bs =>
          match ctor pa with
          | Err e => L [A (-2); A (exn_code e)]
          | Ok c => L [A 0; L (map enc_reg (Mux.c_regs (g_mux c))); L (map enc_out (run c (init c) bs))]
          end
      | _, _ => bad 1
      end
  | _ => bad 0
  end.
