(* sx codec for the wiring model (C20).  One case = one query:
     L [A 1; sigargs]                         construct, members, create() round trip
     L [A 2; sigargs; sigargs]                == between two signatures (and their flips)
     L [A 3; comp; A k]                       port k of a component against its complementary interface
     L [A 4; comp; A k; sigargs; A flip]      port k against an arbitrary (maybe flipped) interface
     L [A 5; comp; comp]                      port 0 of the first against port 0 of the second *)
From Coq Require Import ZArith List Bool.
From Soc Require Import Lib.Sx Lib.Bits Model.Wiring.
Import ListNotations.
Open Scope Z_scope.

(* ---- decoding ---- *)

Definition dec_access (z : Z) : option access :=
  if z =? 0 then Some AccR else if z =? 1 then Some AccW else if z =? 2 then Some AccRW else None.
Definition dec_faccess (z : Z) : option faccess :=
  if z =? 0 then Some FAccR else if z =? 1 then Some FAccW else if z =? 2 then Some FAccRW
  else if z =? 3 then Some FAccNC else None.
Definition dec_trigger (z : Z) : option trigger :=
  if z =? 0 then Some TLevel else if z =? 1 then Some TRise else if z =? 2 then Some TFall else None.

Definition dec_feat (s : sx) : option features :=
  match getZL s with
  | Some [a; b; c; d; e; f] =>
      Some {| ft_err := z2b a; ft_rty := z2b b; ft_stall := z2b c; ft_lock := z2b d;
              ft_cti := z2b e; ft_bte := z2b f |}
  | _ => None
  end.

(* optional integer: L [] = None (argument left at its default), L [A z] = z *)
Definition dec_optz (s : sx) : option (option Z) :=
  match s with
  | L [] => Some None
  | L [A z] => Some (Some z)
  | _ => None
  end.

Definition dec_shapelike (s : sx) : option shapelike :=
  match s with
  | L [A 0; A n] => Some (SLInt n)
  | L [A 1; A w; A sg] => Some (SLCast w (z2b sg))
  | L [A 2] => Some SLBad
  | _ => None
  end.

Definition dec_sigargs (s : sx) : option sigargs :=
  match s with
  | L [A 0; A aw; A dw] => Some (ACsr aw dw)
  | L [A 1; A w; A a] => Some (AElem w (dec_access a))
  | L [A 2; sl; A a] =>
      match dec_shapelike sl with Some x => Some (AField x (dec_faccess a)) | None => None end
  | L [A 3; A aw; A dw; g; f; A bad] =>
      match dec_optz g, dec_feat f with
      | Some g', Some f' => Some (AWb aw dw g' f' (z2b bad))
      | _, _ => None
      end
  | L [A 4; A t] => Some (ASrc (dec_trigger t))
  | L [A 5] => Some APin
  | _ => None
  end.

Definition dec_comp (s : sx) : option comp :=
  match s with
  | L [A 0; A aw; A dw] => Some (CMux aw dw)
  | L [A 1; A aw; A dw] => Some (CCsrDec aw dw)
  | L [A 2; A aw; A dw] => Some (CBridge aw dw)
  | L [A 3; A n; A dw; A al; A t] => Some (CEvMon n dw al (dec_trigger t))
  | L [A 4; A pins; A aw; A dw] => Some (CGpio pins aw dw)
  | L [A 5; A caw; A cdw; d] =>
      match dec_optz d with Some d' => Some (CWbCsr caw cdw d') | None => None end
  | L [A 6; A size; A dw; g] =>
      match dec_optz g with Some g' => Some (CSram size dw g') | None => None end
  | L [A 7; A aw; A dw; g; f; A bad] =>
      match dec_optz g, dec_feat f with
      | Some g', Some f' => Some (CWbDec aw dw g' f' (z2b bad))
      | _, _ => None
      end
  | L [A 8; A aw; A dw; g; f; A bad] =>
      match dec_optz g, dec_feat f with
      | Some g', Some f' => Some (CArb aw dw g' f' (z2b bad))
      | _, _ => None
      end
  | _ => None
  end.

(* ---- encoding ---- *)

Definition enc_flow (f : flow) : Z := match f with FIn => 0 | FOut => 1 end.
Definition enc_member (m : member) : sx :=
  L [zl (map name_code (m_path m)); A (enc_flow (m_flow m)); A (m_width m); A (b2z (m_signed m))].
Definition enc_members (l : list member) : sx := L (map enc_member l).

Definition enc_exn (e : exn) : Z := match e with ValueError => 1 | TypeError => 2 end.
Definition refused (e : exn) : sx := L [A (-2); A (enc_exn e)].

Definition enc_access (a : access) : Z := match a with AccR => 0 | AccW => 1 | AccRW => 2 end.
Definition enc_faccess (a : faccess) : Z := match a with FAccR => 0 | FAccW => 1 | FAccRW => 2 | FAccNC => 3 end.
Definition enc_trigger (t : trigger) : Z := match t with TLevel => 0 | TRise => 1 | TFall => 2 end.
Definition enc_feat (f : features) : sx :=
  zl [b2z (ft_err f); b2z (ft_rty f); b2z (ft_stall f); b2z (ft_lock f); b2z (ft_cti f); b2z (ft_bte f)].

(* the attributes read back from the signature object *)
Definition enc_sig (s : sig) : sx :=
  match s with
  | SCsr p => L [A 0; A (c_addr_width p); A (c_data_width p)]
  | SElem p => L [A 1; A (e_width p); A (enc_access (e_access p))]
  | SField p => L [A 2; A (fp_width p); A (b2z (fp_signed p)); A (enc_faccess (fp_access p))]
  | SWb p => L [A 3; A (w_addr_width p); A (w_data_width p); A (w_granularity p); enc_feat (w_features p)]
  | SSrc t => L [A 4; A (enc_trigger t)]
  | SPin => L [A 5]
  end.

Definition enc_conn (c : conn) : Z :=
  match c with ConnOk => 0 | ConnMissing => 1 | ConnWidth => 2 | ConnSeveralOut => 3 | ConnOnlyIn => 4 end.

(* ---- queries ---- *)

Definition q_sig (a : sigargs) : sx :=
  match construct a with
  | Err e => refused e
  | Ok s =>
      L [A 0; enc_sig s; enc_members (members s);
         match create s with
         | Err e => refused e
         | Ok s' => L [A 0; enc_sig s'; enc_members (members s');
                       A (b2z (sig_eqb s s')); A (b2z (sig_eqb s' s))]
         end]
  end.

Definition q_pair (a b : sigargs) : sx :=
  match construct a, construct b with
  | Ok s, Ok t =>
      let va := base s in let vb := base t in
      L [A 0;
         zl [b2z (sigv_eqb va vb); b2z (sigv_eqb vb va); b2z (negb (sigv_eqb va vb));
             b2z (sigv_eqb va (flip vb)); b2z (sigv_eqb (flip va) vb);
             b2z (sigv_eqb (flip va) (flip vb))]]
  | Err e, _ => L [A (-2); A (enc_exn e)]
  | Ok _, Err e => L [A (-3); A (enc_exn e)]
  end.

(* the standard interface a port is expected to be wired to: for a target port (declared In) an
   initiator-side interface of the same signature; for an initiator port (declared Out) a flipped one *)
Definition conn_with_complement (p : port) : conn :=
  let s := snd (p_sig p) in
  match p_flow p with
  | FIn => connect_check (members s) (as_seen_outside p)
  | FOut => connect_check (as_seen_outside p) (flip_members (members s))
  end.

Definition q_port (c : comp) (k : Z) : sx :=
  match ports c with
  | Err e => refused e
  | Ok ps =>
      if k <? 0 then bad 3 else
      match nth_error ps (Z.to_nat k) with
      | None => bad 3
      | Some p =>
          let v := signature_of_port p in
          L [A 0; A (enc_flow (p_flow p)); A (b2z (fst v)); enc_sig (snd v);
             enc_members (as_seen_outside p); A (enc_conn (conn_with_complement p))]
      end
  end.

Definition q_misconnect (c : comp) (k : Z) (a : sigargs) (fl : bool) : sx :=
  match ports c with
  | Err e => refused e
  | Ok ps =>
      if k <? 0 then bad 3 else
      match nth_error ps (Z.to_nat k) with
      | None => bad 3
      | Some p =>
          match construct a with
          | Err e => L [A (-3); A (enc_exn e)]
          | Ok s =>
              let v := if fl then flip (base s) else base s in
              L [A 0; A (enc_conn (connect_check (as_seen_outside p) (members_v v)))]
          end
      end
  end.

Definition q_two (c d : comp) : sx :=
  match ports c, ports d with
  | Ok (p :: _), Ok (q :: _) =>
      L [A 0; A (enc_conn (connect_check (as_seen_outside p) (as_seen_outside q)))]
  | Err e, _ => refused e
  | Ok _, Err e => L [A (-3); A (enc_exn e)]
  | _, _ => bad 3
  end.

Definition run_wiring (s : sx) : sx :=
  match s with
  | L [A 1; a] => match dec_sigargs a with Some a' => q_sig a' | None => bad 1 end
  | L [A 2; a; b] =>
      match dec_sigargs a, dec_sigargs b with
      | Some a', Some b' => q_pair a' b'
      | _, _ => bad 1
      end
  | L [A 3; c; A k] => match dec_comp c with Some c' => q_port c' k | None => bad 2 end
  | L [A 4; c; A k; a; A fl] =>
      match dec_comp c, dec_sigargs a with
      | Some c', Some a' => q_misconnect c' k a' (z2b fl)
      | _, _ => bad 2
      end
  | L [A 5; c; d] =>
      match dec_comp c, dec_comp d with
      | Some c', Some d' => q_two c' d'
      | _, _ => bad 2
      end
  | _ => bad 0
  end.
