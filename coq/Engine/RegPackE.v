(* sx codec for the register packing model.
   case   = L [annot; fields; cls_access; inst_access; L cycles]
            annot, fields : L [] (absent / None) | L [tree];  accesses : L [] | L [A code] (0 r, 1 w, 2 rw)
   tree   = L [A 0; A width; A access]  (0 r, 1 w, 2 rw, 3 nc)        a Field
          | L [A 1]                                                    anything else (junk)
          | L [A 2; L [L [A key; tree] ...]]                           dict
          | L [A 3; L [tree ...]]                                      list
   cycle  = L [A r_stb; A w_stb; A w_data; L [A r_data_i ...]]        one r_data per field, iteration order
   result = L [A (-2); A 1|2]                                          ValueError | TypeError
          | L [L [A width; A has_r; A has_w]; L [L [A r_data; L [L [A r_stb; A w_stb; A w_data] ...]] ...]] *)
From Coq Require Import ZArith List Bool.
From Soc Require Import Lib.Sx Lib.Bits Model.RegPack.
Import ListNotations.
Open Scope Z_scope.

Definition dec_facc (z : Z) : option facc :=
  if z =? 0 then Some FR else if z =? 1 then Some FW else if z =? 2 then Some FRW
  else if z =? 3 then Some FNC else None.

Definition dec_racc (z : Z) : option racc :=
  if z =? 0 then Some ER else if z =? 1 then Some EW else if z =? 2 then Some ERW else None.

Fixpoint dec_tree (s : sx) : option ftree :=
  match s with
  | L (A tag :: rest) =>
      if tag =? 0 then
        match rest with
        | [A w; A a] => match dec_facc a with Some ac => Some (Leaf w ac) | None => None end
        | _ => None
        end
      else if tag =? 1 then
        match rest with [] => Some Junk | _ => None end
      else if tag =? 2 then
        match rest with
        | [L kids] =>
            match (fix go (l : list sx) : option (list (Z * ftree)) :=
                     match l with
                     | [] => Some []
                     | L [A k; x] :: l' =>
                         match dec_tree x, go l' with
                         | Some t, Some r => Some ((k, t) :: r)
                         | _, _ => None
                         end
                     | _ => None
                     end) kids with
            | Some r => Some (Map r)
            | None => None
            end
        | _ => None
        end
      else if tag =? 3 then
        match rest with
        | [L kids] =>
            match (fix go (l : list sx) : option (list ftree) :=
                     match l with
                     | [] => Some []
                     | x :: l' =>
                         match dec_tree x, go l' with
                         | Some t, Some r => Some (t :: r)
                         | _, _ => None
                         end
                     end) kids with
            | Some r => Some (Arr r)
            | None => None
            end
        | _ => None
        end
      else None
  | _ => None
  end.

(* an optional argument: L [] = absent, L [x] = present; None = undecodable *)
Definition dec_opt {X} (f : sx -> option X) (s : sx) : option (option X) :=
  match s with
  | L [] => Some None
  | L [x] => match f x with Some v => Some (Some v) | None => None end
  | _ => None
  end.

Definition dec_racc_sx (s : sx) : option racc :=
  match s with A z => dec_racc z | _ => None end.

(* class annotations are always a dict *)
Definition dec_annot (s : sx) : option ftree :=
  match dec_tree s with
  | Some (Map l) => Some (Map l)
  | _ => None
  end.

Definition dec_cycle (s : sx) : option (ein * list Z) :=
  match s with
  | L [A r; A w; A d; vs] =>
      match getZL vs with
      | Some l => Some ({| e_r_stb := z2b r; e_w_stb := z2b w; e_w_data := d |}, l)
      | None => None
      end
  | _ => None
  end.

Definition enc_fout (o : fout) : sx := zl [b2z (p_r_stb o); b2z (p_w_stb o); p_w_data o].
Definition enc_out (o : Z * list fout) : sx := L [A (fst o); L (map enc_fout (snd o))].
Definition enc_exn (e : exn) : sx :=
  L [A (-2); A (match e with ValueError => 1 | TypeError => 2 end)].

Definition run_regpack (s : sx) : sx :=
  match s with
  | L [an; fl; ca; ia; L cycles] =>
      match dec_opt dec_annot an, dec_opt dec_tree fl,
            dec_opt dec_racc_sx ca, dec_opt dec_racc_sx ia, mapM dec_cycle cycles with
      | Some annot, Some fields, Some cls_acc, Some inst_acc, Some cyc =>
          match reg_new annot fields cls_acc inst_acc with
          | Err e => enc_exn e
          | Ok (t, ra, width) =>
              let n := length (flatten t) in
              if forallb (fun c => Nat.eqb (length (snd c)) n) cyc
              then L [zl [width; b2z (e_readable ra); b2z (e_writable ra)];
                      L (map (fun c => enc_out (reg_out t (fst c) (snd c))) cyc)]
              else bad 2
          end
      | _, _, _, _, _ => bad 1
      end
  | _ => bad 0
  end.
