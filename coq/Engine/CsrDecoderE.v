(* sx codec for the CSR decoder model.
   case  = L [tree; L cycles]
   tree  = L [A 0; A aw; A id]                                   leaf port (id indexes the cycle's r_data list)
         | L [A 1; A aw; A dw; L adds; L wins]                   decoder
   add   = L [A is_iface; A sub_dw; A placed]                    one add() call, in call order; placed = the
                                                                 real add() returned a range (0 = refused with ValueError)
   win   = L [A start; A stop; tree]                             windows in ascending address order
   cycle = L [A addr; A r_stb; A w_stb; A w_data; L r_datas]
   result = L [L (per decoder, preorder: L add-codes); L rows],  row = L [L leaf-ports; A root r_data]
            add-code 0 = returned, 1 = TypeError, 2 = ValueError;  L [A (-3)] = a Case pattern is refused *)
From Coq Require Import ZArith List Bool.
From Soc Require Import Lib.Sx Lib.Bits Lib.CsrPattern Model.CsrDecoder.
Import ListNotations.
Open Scope Z_scope.

Fixpoint dec_tree (s : sx) : option tree :=
  match s with
  | L [A 0; A aw; A id] => if 0 <=? id then Some (Leaf aw (Z.to_nat id)) else None
  | L [A 1; A aw; A _; L _; L wins] =>
      match (fix go (l : list sx) : option forest :=
               match l with
               | [] => Some FNil
               | L [A s0; A e0; t] :: l' =>
                   match dec_tree t, go l' with
                   | Some t', Some f' => Some (FCons s0 e0 t' f')
                   | _, _ => None
                   end
               | _ => None
               end) wins with
      | Some f => Some (Node aw f)
      | None => None
      end
  | _ => None
  end.

Definition add_code (dw : Z) (s : sx) : option Z :=
  match s with
  | L [A isif; A sdw; A placed] =>
      Some (match add_check dw (z2b isif) sdw with
            | Err TypeError => 1
            | Err ValueError => 2
            | Ok => if z2b placed then 0 else 2
            end)
  | _ => None
  end.

(* add() results of every decoder, preorder; None if the case is malformed (the number of windows
   must be the number of add() calls that returned) *)
Fixpoint node_adds (s : sx) : option (list sx) :=
  match s with
  | L [A 0; A _; A _] => Some []
  | L [A 1; A _; A dw; L adds; L wins] =>
      match mapM (add_code dw) adds with
      | Some codes =>
          if Nat.eqb (length (filter (Z.eqb 0) codes)) (length wins) then
            match (fix go (l : list sx) : option (list sx) :=
                     match l with
                     | [] => Some []
                     | L [A _; A _; t] :: l' =>
                         match node_adds t, go l' with
                         | Some x, Some y => Some (x ++ y)
                         | _, _ => None
                         end
                     | _ => None
                     end) wins with
            | Some below => Some (zl codes :: below)
            | None => None
            end
          else None
      | None => None
      end
  | _ => None
  end.

Definition root_dw (s : sx) : option Z :=
  match s with L [A 1; A _; A dw; L _; L _] => Some dw | _ => None end.

Definition in_range (w z : Z) : bool := (0 <=? z) && (z <? 2 ^ w).
Definition is_bit (z : Z) : bool := (z =? 0) || (z =? 1).

Definition dec_cycle (aw dw : Z) (nleaves : nat) (s : sx) : option (bus * list Z) :=
  match s with
  | L [A a; A r; A w; A d; L rds] =>
      match getZs rds with
      | Some rs =>
          if in_range aw a && is_bit r && is_bit w && in_range dw d &&
             Nat.eqb (length rs) nleaves && forallb (in_range dw) rs
          then Some ({| addr := a; r_stb := z2b r; w_stb := z2b w; w_data := d |}, rs)
          else None
      | None => None
      end
  | _ => None
  end.

Definition enc_bus (b : bus) : sx := zl [addr b; b2z (r_stb b); b2z (w_stb b); w_data b].

Definition run_cycle (t : tree) (c : bus * list Z) : sx :=
  let (i, rs) := c in
  L [L (map enc_bus (tree_down t i)); A (tree_up (fun id => nth id rs 0) t)].

Definition run_csrdec (s : sx) : sx :=
  match s with
  | L [ts; L cycles] =>
      match dec_tree ts, node_adds ts, root_dw ts with
      | Some t, Some codes, Some dw =>
          let n := length (leaf_ids t) in
          (* every leaf id must index the r_data list: the default of nth is never used *)
          if forallb (fun id => Nat.ltb id n) (leaf_ids t) then
            match mapM (dec_cycle (tree_aw t) dw n) cycles with
            | Some cs =>
                if tree_elab_ok t then L [L codes; L (map (run_cycle t) cs)]
                else L [A (-3)]
            | None => bad 3
            end
          else bad 2
      | _, _, _ => bad 1
      end
  | _ => bad 0
  end.
