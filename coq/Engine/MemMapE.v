(* sx codec for the memory-map model: a case is a list of API calls on a world of maps;
   the result is one observation per call. *)
From Coq Require Import ZArith List Bool.
From Soc Require Import Lib.Sx Lib.Res Lib.PyList Model.MemoryMap.
Import ListNotations.
Open Scope Z_scope.

Definition dec_pyint (s : sx) : pyint :=
  match s with L [A z] => VInt z | L [] => VNone | _ => VBad end.

Definition dec_rawpart (s : sx) : option rawpart :=
  match s with
  | L [A 0; A a] => Some (RStr a)
  | L [A 1; A n] => Some (RInt n)
  | L [A 2] => Some ROther
  | _ => None
  end.

Definition dec_rawname (s : sx) : option rawname :=
  match s with
  | L [A 0; A a] => Some (NStr a)
  | L [A 1; L ps] => match mapM dec_rawpart ps with Some l => Some (NTuple l) | None => None end
  | L [A 2] => Some NOther
  | _ => None
  end.

Definition enc_part (p : part) : sx := match p with PStr a => zl [0; a] | PInt n => zl [1; n] end.
Definition enc_name (n : name) : sx := L (map enc_part n).
Definition enc_oname (n : option name) : sx := match n with None => L [] | Some x => L [enc_name x] end.
Definition enc_err (e : exn) : sx := L [A (exn_code e)].

Definition enc_info (i : info) : sx :=
  L [A (i_res i); L (map enc_name (i_path i)); A (i_start i); A (i_end i); A (i_width i)].

Definition observe_map (addrs ids : list Z) (m : mmap) : mmap * sx :=
  let rs := L (map (fun '(id, nm, s, e) => L [A id; enc_name nm; A s; A e]) (resources m)) in
  let ws := L (map (fun '(id, nm, s, e, r) => L [A id; enc_oname nm; A s; A e; A r]) (windows m)) in
  let ps := L (map (fun '(id, p, r) => L [A id; zl p; A r]) (window_patterns m)) in
  let ar := match all_resources m with
            | Ok l => L [A 0; L (map enc_info l)]
            | Err e => enc_err e end in
  let dc := L (map (fun a => ob (decode_address m a)) addrs) in
  let fr := L (map (fun id => match find_resource m id with
                              | Ok i => L [A 0; enc_info i]
                              | Err e => enc_err e end) ids) in
  match align_to m (VInt 0) with
  | Ok (m', n) => (m', L [rs; ws; ps; ar; dc; fr; A n])
  | Err e => (m, enc_err e)
  end.

Fixpoint observe_all (addrs ids : list Z) (w : list mmap) : list mmap * list sx :=
  match w with
  | [] => ([], [])
  | m :: w' => let '(m', o) := observe_map addrs ids m in
               let '(w'', os) := observe_all addrs ids w' in
               (m' :: w'', o :: os)
  end.

Definition enc_res {X} (f : X -> list sx) (r : res X) : sx :=
  match r with Ok x => L (A 0 :: f x) | Err e => enc_err e end.

Definition enc_result (r : result) : sx :=
  match r with
  | RNew r => enc_res (fun n => [A (Z.of_nat n)]) r
  | RRes r => enc_res (fun '(s, e) => [A s; A e]) r
  | RWin r => enc_res (fun '(s, e, k) => [A s; A e; A k]) r
  | RAlign r => enc_res (fun n => [A n]) r
  | RUnit => L [A 0]
  | RBadIndex => bad 20
  end.

Definition dec_op (s : sx) : option op :=
  match s with
  | L [A 0; aw; dw; al] => Some (ONew (dec_pyint aw) (dec_pyint dw) (dec_pyint al))
  | L [A 1; A mi; A rid; A comp; nm; size; addr; al] =>
      match dec_rawname nm with
      | Some rn => Some (ORes (Z.to_nat mi) rid (z2b comp) rn (dec_pyint size) (dec_pyint addr) (dec_pyint al))
      | None => None
      end
  | L [A 2; A mi; wref; nmo; addr; sparse] =>
      let nm := match nmo with
                | L [] => Some None
                | L [x] => match dec_rawname x with Some r => Some (Some r) | None => None end
                | _ => None end in
      let sp := match sparse with L [] => Some None | L [A b] => Some (Some (z2b b)) | _ => None end in
      let wr := match wref with L [] => Some None | L [A wi] => Some (Some (Z.to_nat wi)) | _ => None end in
      match nm, sp, wr with
      | Some n, Some s', Some w => Some (OWin (Z.to_nat mi) w n (dec_pyint addr) s')
      | _, _, _ => None
      end
  | L [A 3; A mi; a] => Some (OAlign (Z.to_nat mi) (dec_pyint a))
  | L [A 4; A mi] => Some (OFreeze (Z.to_nat mi))
  | _ => None
  end.

(* an observation request re-queries every map; its cursor probe is align_to(0) on every map *)
Definition step (w : world) (o : sx) : world * sx :=
  match o with
  | L [A 5; addrs; ids] =>
      match getZL addrs, getZL ids with
      | Some a, Some i => let '(w', os) := observe_all a i w in (w', L os)
      | _, _ => (w, bad 17)
      end
  | _ =>
      match dec_op o with
      | Some op => let '(w', r) := wstep w op in (w', enc_result r)
      | None => (w, bad 10)
      end
  end.

Fixpoint run_ops (w : world) (ops : list sx) : list sx :=
  match ops with
  | [] => []
  | op :: ops' => let '(w', o) := step w op in o :: run_ops w' ops'
  end.

Definition run_memmap (s : sx) : sx :=
  match s with
  | L ops => L (run_ops [] ops)
  | _ => bad 0
  end.
