(* sx codec for the hierarchy model (C01).
   case    = L [root; L cycles]
   root    = L [A 0; csrnode]
           | L [A 1; A aw; A dw; A gran; A al; L wsubs]
   wsub    = L [L aligns; oname; addr; A sparse; wbnode]
   wbnode  = L [A 0; A id; A size; A dw; A gran; A wr; L init]
           | L [A 1; A dw; oname; csrnode]
   csrnode = L [A 0; A aw; A dw; A al; L mops; ov]            ov = L [] | L [A v]
           | L [A 1; A aw; A dw; A al; L csubs]
   mop     = L [A 0; A id; A width; A rd; A wr; name; size; addr; align] | L [A 1; A a]
   csub    = L [L aligns; oname; addr; csrnode]
   oname   = L [] | L [name]          name, size, addr, align as in MemMapE (dec_rawname / dec_pyint)
   cycle   = L [A cyc; A stb; A we; A adr; A sel; A dat_w; L rvals; A probe]          (Wishbone root)
           | L [A addr; A r_stb; A w_stb; A w_data; L rvals; A probe]                 (CSR root)
   result  = L [mapobs; L reach; L rows]
     mapobs = L [all_resources; L decode]  over every address 0 <= a < 2^addr_width of the root map
     reach  = per address L [] | L [A id; A offset]
     row    = L [A ack; A dat_r; L leaves; L srams]      leaf = L [A id; A r_stb; A w_stb; A w_data]
                                                         sram = L [A id; A cyc; L rows (only when probe)]
            | L [A r_data; L leaves]
   L [A (-2); A code] : a constructor call the case lists as successful fails in the model *)
From Coq Require Import ZArith List Bool.
From Soc Require Import Lib.Sx Lib.Res Lib.Bits Model.MemoryMap Model.Hierarchy Engine.MemMapE.
From Soc Require Model.CsrDecoder Model.WbDecoder.
Import ListNotations.
Open Scope Z_scope.

Definition dec_oname (s : sx) : option (option rawname) :=
  match s with
  | L [] => Some None
  | L [n] => match dec_rawname n with Some r => Some (Some r) | None => None end
  | _ => None
  end.

Definition dec_mop (s : sx) : option mop :=
  match s with
  | L [A 0; A id; A w; A rd; A wr; nm; size; addr; al] =>
      match dec_rawname nm with
      | Some n => Some (MAdd {| l_id := id; l_width := w; l_rd := z2b rd; l_wr := z2b wr; l_name := n;
                                l_size := dec_pyint size; l_addr := dec_pyint addr; l_align := dec_pyint al |})
      | None => None
      end
  | L [A 1; A a] => Some (MAlign a)
  | _ => None
  end.

Definition dec_wopt (aligns nm addr : sx) : option wopt :=
  match getZL aligns, dec_oname nm with
  | Some al, Some n => Some {| o_aligns := al; o_name := n; o_addr := dec_pyint addr |}
  | _, _ => None
  end.

Fixpoint dec_csr (s : sx) : option csrnode :=
  match s with
  | L [A 0; A aw; A dw; A al; L ops; ov] =>
      match mapM dec_mop ops with
      | Some l => Some (MuxLeaf aw dw al l (match ov with L [A v] => Some v | _ => None end))
      | None => None
      end
  | L [A 1; A aw; A dw; A al; L subs] =>
      match (fix go (l : list sx) : option (list (wopt * csrnode)) :=
               match l with
               | [] => Some []
               | L [aligns; nm; addr; c] :: l' =>
                   match dec_wopt aligns nm addr, dec_csr c, go l' with
                   | Some o, Some c', Some r => Some ((o, c') :: r)
                   | _, _, _ => None
                   end
               | _ => None
               end) subs with
      | Some l => Some (CsrDec aw dw al l)
      | None => None
      end
  | _ => None
  end.

Definition dec_wbnode (s : sx) : option wbnode :=
  match s with
  | L [A 0; A id; A size; A dw; A gran; A wr; L init] =>
      match getZs init with
      | Some l => Some (SramLeaf id size dw gran (z2b wr) l)
      | None => None
      end
  | L [A 1; A dw; nm; c] =>
      match dec_oname nm, dec_csr c with
      | Some n, Some c' => Some (BridgeNode dw n c')
      | _, _ => None
      end
  | _ => None
  end.

Definition dec_wsub (s : sx) : option (wopt * bool * wbnode) :=
  match s with
  | L [aligns; nm; addr; A sp; n] =>
      match dec_wopt aligns nm addr, dec_wbnode n with
      | Some o, Some n' => Some (o, z2b sp, n')
      | _, _ => None
      end
  | _ => None
  end.

Definition dec_root (s : sx) : option root :=
  match s with
  | L [A 0; c] => match dec_csr c with Some c' => Some (RootCsr c') | None => None end
  | L [A 1; A aw; A dw; A gran; A al; L subs] =>
      match mapM dec_wsub subs with
      | Some l => Some (RootWb {| wr_aw := aw; wr_dw := dw; wr_gran := gran; wr_al := al; wr_subs := l |})
      | None => None
      end
  | _ => None
  end.

Definition dec_wcycle (s : sx) : option (WbDecoder.breq * list Z * bool) :=
  match s with
  | L [A c; A st; A w; A a; A se; A d; L rv; A p] =>
      match getZs rv with
      | Some l => Some ({| WbDecoder.cyc := z2b c; WbDecoder.stb := z2b st; WbDecoder.we := z2b w;
                           WbDecoder.adr := a; WbDecoder.dat_w := d; WbDecoder.sel := se;
                           WbDecoder.lock := false; WbDecoder.cti := 0; WbDecoder.bte := 0 |}, l, z2b p)
      | None => None
      end
  | _ => None
  end.

Definition dec_ccycle (s : sx) : option (CsrDecoder.bus * list Z * bool) :=
  match s with
  | L [A a; A r; A w; A d; L rv; A p] =>
      match getZs rv with
      | Some l => Some ({| CsrDecoder.addr := a; CsrDecoder.r_stb := z2b r; CsrDecoder.w_stb := z2b w;
                           CsrDecoder.w_data := d |}, l, z2b p)
      | None => None
      end
  | _ => None
  end.

Definition enc_leaf (l : lobs) : sx := zl [lo_id l; b2z (lo_rstb l); b2z (lo_wstb l); lo_wdata l].

Definition enc_wobs (o : wobs) (probe : bool) : sx :=
  L [A (b2z (wo_ack o)); A (wo_dat_r o); L (map enc_leaf (wo_leaves o));
     L (map (fun x : Z * bool * list Z =>
               let '(id, c, rows) := x in L [A id; A (b2z c); zl (if probe then rows else [])])
            (wo_srams o))].

Definition enc_cobs (o : Z * list lobs) : sx := L [A (fst o); L (map enc_leaf (snd o))].

Definition addr_list (aw : Z) : list Z := map Z.of_nat (seq 0 (Z.to_nat (2 ^ aw))).

Definition enc_reach (r : option (Z * Z)) : sx :=
  match r with Some (id, off) => zl [id; off] | None => L [] end.

Definition map_obs (m : mmap) : sx :=
  L [match all_resources m with Ok l => L [A 0; L (map enc_info l)] | Err e => enc_err e end;
     L (map (fun a => ob (decode_address m a)) (addr_list (m_aw m)))].

Definition run_hier (s : sx) : sx :=
  match s with
  | L [r; L cycles] =>
      match dec_root r with
      | Some rt =>
          match root_map rt, root_hw rt with
          | Ok m, Ok h =>
              let ro := L (map (fun a => enc_reach (reach h a)) (addr_list (m_aw m))) in
              match h with
              | RHCsr ch =>
                  match mapM dec_ccycle cycles with
                  | Some tr => L [map_obs m; ro;
                                  L (map enc_cobs (csr_run ch (cinit ch) (map fst tr)))]
                  | None => bad 2
                  end
              | RHWb wh =>
                  match mapM dec_wcycle cycles with
                  | Some tr =>
                      L [map_obs m; ro;
                         L (map (fun op : wobs * bool => enc_wobs (fst op) (snd op))
                                (combine (wb_run wh (map winit (wh_subs wh)) (map fst tr)) (map snd tr)))]
                  | None => bad 2
                  end
              end
          | Err e, _ => L [A (-2); A (exn_code e)]
          | _, Err e => L [A (-2); A (10 + exn_code e)]
          end
      | None => bad 1
      end
  | _ => bad 0
  end.
