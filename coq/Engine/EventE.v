(* sx codec for the event model.
   case   = L [L modes; A monitor_trigger; L ops_before; L ops_after; L cycles]
     modes        one entry per Source object the harness created (object identity = position):
                  0 level, 1 rise, 2 fall
     op           L [A code; A arg]   code 0 add, 1 index, 2 freeze, 3 size, 4 sources;
                  arg = identity of a Source, or -1 for an object that is not an event.Source
     ops_before   calls made before Monitor(event_map, trigger=...) is constructed
     ops_after    calls made after it (the constructor froze the map), before elaboration
     cycle        L [L i_per_object; A enable; A clear]
   result = L [L results_before; L results_after; L rows; L [A w; A w; A w]]
     w            number of bits of enable, pending, clear (each is event_map.size at construction)
     result       (0) None | (1 n) int | (2 ((id idx) ...)) sources() | (3 e) exception,
                  e = 0 ValueError, 1 TypeError, 2 KeyError
     row          L [L trg_per_object; A pending; A src_i],  trg_per_object: (t) for an object that
                  is in the map, () for one that is not (it is not part of the design) *)
From Coq Require Import ZArith List Bool.
From Soc Require Import Lib.Sx Model.Event.
Import ListNotations.
Open Scope Z_scope.

Definition dec_mode (z : Z) : option mode :=
  if z =? 0 then Some Level else if z =? 1 then Some Rise else if z =? 2 then Some Fall else None.

Definition dec_arg (k : Z) (z : Z) : option arg :=
  if z =? -1 then Some NotSrc else if (0 <=? z) && (z <? k) then Some (Src z) else None.

Definition dec_op (k : Z) (s : sx) : option op :=
  match s with
  | L [A c; A a] =>
      if c =? 0 then option_map OAdd (dec_arg k a)
      else if c =? 1 then option_map OIndex (dec_arg k a)
      else if c =? 2 then Some OFreeze
      else if c =? 3 then Some OSize
      else if c =? 4 then Some OSources
      else None
  | _ => None
  end.

Definition dec_cycle (k : nat) (s : sx) : option minp :=
  match s with
  | L [iv; A en; A cl] =>
      match getZL iv with
      | Some l => if Nat.eqb (length l) k
                  then Some {| in_i := fun id => z2b (nth (Z.to_nat id) l 0);
                               in_enable := en; in_clear := cl |}
                  else None
      | None => None
      end
  | _ => None
  end.

Definition enc_exn (e : exn) : Z := match e with ValueError => 0 | TypeError => 1 | KeyError => 2 end.

Definition enc_pair (p : Z * nat) : sx := zl [fst p; Z.of_nat (snd p)].

Definition enc_result (r : result) : sx :=
  match r with
  | RNone => zl [0]
  | RInt n => zl [1; Z.of_nat n]
  | RList l => L [A 2; L (map enc_pair l)]
  | RErr e => zl [3; enc_exn e]
  end.

(* trg of the object with identity id, if it is one of the monitor's sources *)
Fixpoint trg_by_id (c : mcfg) (t : list bool) (id : Z) : sx :=
  match c, t with
  | s :: c', b :: t' => if s_id s =? id then zl [b2z b] else trg_by_id c' t' id
  | _, _ => L []
  end.

Definition enc_out (k : nat) (c : mcfg) (o : mout) : sx :=
  L [L (map (fun id => trg_by_id c (o_trg o) (Z.of_nat id)) (seq 0 k));
     A (o_pending o); A (b2z (o_irq o))].

Definition run_event (s : sx) : sx :=
  match s with
  | L [ms; A _montrig; L ops1; L ops2; L cycles] =>
      match getZL ms with
      | None => bad 1
      | Some mz =>
          match mapM dec_mode mz with
          | None => bad 2
          | Some modes =>
              let k := length modes in
              match mapM (dec_op (Z.of_nat k)) ops1, mapM (dec_op (Z.of_nat k)) ops2,
                    mapM (dec_cycle k) cycles with
              | Some h1, Some h2, Some is =>
                  let (m1, r1) := run_ops em_empty h1 in
                  (* Monitor.__init__: widths from event_map.size, then
                     `self.src.event_map = event_map` freezes the map *)
                  let mf := em_freeze m1 in
                  let (m2, r2) := run_ops mf h2 in
                  (* elaborate() iterates sources() of the map as it is then *)
                  let c := monitor_cfg m2 (fun id => nth (Z.to_nat id) modes Level) in
                  L [L (map enc_result r1); L (map enc_result r2);
                     L (map (enc_out k c) (run c (init c) is));
                     (let w := Z.of_nat (em_size mf) in zl [w; w; w])]
              | _, _, _ => bad 3
              end
          end
      end
  | _ => bad 0
  end.
