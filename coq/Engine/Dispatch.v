(* One entry point for the OCaml driver: engine number -> codec'd model run. *)
From Coq Require Import ZArith List.
From Soc Require Import Lib.Sx Engine.ArbiterE.
Open Scope Z_scope.

Definition run_engine (e : Z) (c : sx) : sx :=
  match e with
  | 8 => run_arbiter c
  | _ => bad 100
  end.
