(* sx codec for the multiplexer model: case = L [dw; L regs; ov; L cycles] *)
From Coq Require Import ZArith List Bool.
From Soc Require Import Lib.Sx Lib.Bits Model.Mux.
Import ListNotations.
Open Scope Z_scope.

Definition dec_reg (s : sx) : option reg :=
  match getZL s with
  | Some [a; b; w; r; wr] => Some {| r_start := a; r_stop := b; r_width := w; r_rd := z2b r; r_wr := z2b wr |}
  | _ => None
  end.

Definition dec_inp (s : sx) : option inp :=
  match s with
  | L [A a; A r; A w; A d; L vs] =>
      match getZs vs with
      | Some l => Some {| i_addr := a; i_rstb := z2b r; i_wstb := z2b w; i_wdata := d; i_rvals := l |}
      | None => None end
  | _ => None
  end.

Definition enc_out (o : outp) : sx :=
  L [A (o_rdata o); zl (map b2z (o_rstb o)); zl (map b2z (o_wstb o)); zl (o_wdata o)].

Definition run_mux (s : sx) : sx :=
  match s with
  | L [A dw; L rs; ov; L cycles] =>
      match mapM dec_reg rs, mapM dec_inp cycles with
      | Some regs, Some is =>
          let ovo := match ov with L [A v] => Some v | _ => None end in
          match mk_cfg dw regs ovo with
          | Some c => L [A (c_Sr c); A (c_Sw c); L (map enc_out (run c (init c) is))]
          | None => L [A (-3)]
          end
      | _, _ => bad 1
      end
  | _ => bad 0
  end.
