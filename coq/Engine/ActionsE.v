(* sx codec for the field-action model.
   case  = L [ L [A kind; A width; A init]; L cycles ]
   cycle = L [A r_stb; A w_stb; A w_data; A r_data; A set; A clear]
   kind  : 0 R, 1 W, 2 RW, 3 RW1C, 4 RW1S, 5 reserved
   result = L rows, row = L [A port.r_data; A data; A r_stb; A w_stb; A w_data] *)
From Coq Require Import ZArith List Bool.
From Soc Require Import Lib.Sx Lib.Bits Model.Actions.
Import ListNotations.
Open Scope Z_scope.

Definition dec_kind (z : Z) : option kind :=
  match z with
  | 0 => Some KR | 1 => Some KW | 2 => Some KRW | 3 => Some KRW1C | 4 => Some KRW1S | 5 => Some KRes
  | _ => None
  end.

Definition dec_bool (z : Z) : option bool :=
  match z with 0 => Some false | 1 => Some true | _ => None end.

Definition dec_cfg (s : sx) : option cfg :=
  match getZL s with
  | Some [k; w; i] =>
      match dec_kind k with
      | Some kk => if w <? 0 then None else Some {| c_kind := kk; c_w := w; c_init := i |}
      | None => None
      end
  | _ => None
  end.

Definition dec_inp (s : sx) : option inp :=
  match getZL s with
  | Some [rs; ws; wd; rd; st; cl] =>
      match dec_bool rs, dec_bool ws with
      | Some a, Some b =>
          Some {| p_r_stb := a; p_w_stb := b; p_w_data := wd;
                  in_r_data := rd; in_set := st; in_clear := cl |}
      | _, _ => None
      end
  | _ => None
  end.

Definition enc_out (o : outp) : sx :=
  zl [o_port_r_data o; o_data o; b2z (o_r_stb o); b2z (o_w_stb o); o_w_data o].

Definition run_action (s : sx) : sx :=
  match s with
  | L [c; L cycles] =>
      match dec_cfg c with
      | Some cf =>
          match mapM dec_inp cycles with
          | Some is => L (map enc_out (run0 cf is))
          | None => bad 2
          end
      | None => bad 1
      end
  | _ => bad 0
  end.
