(* sx codec for the elaboration engine (C19).
   case   = L [A class; A 0; L []]                       no model prediction: the oracle alone decides
          | L [A class; A 1; payload]
   result = L [A class]                                  (no prediction)
          | L (A class :: prediction)
   class 1  csr.Multiplexer    payload L [L [is_map; has_windows; bad_resource]; L regs; ov; A k]
                               reg = (start stop width readable writable), ov = L [] | L [A n]
                               -> [code]                 code 1 ValueError, 2 TypeError, 3 pinned AttributeError
                               -> [0; L steps]           step = L [A Sr; A Sw; L r-offsets; L w-offsets] after each
                                                         of the k elaborations, or L [A (-3); A exn]
   class 2  csr.Decoder        payload L [A aw; A dw; L adds; L wins]   add = (is_iface sub_dw placed)
                                                                         win = (sub_aw start stop)
                               -> [L [L [A code]]; A all-Case-patterns-fit]
   class 3  csr.Bridge         payload L [L names]   name = L parts, part = L (A 0 :: code points) | L [A 1; A n]
                               -> [0; L subs; 0]         sub = L code points | L [A (-1)] (anonymous), named ones
                                                         first; last = number of registers (fields) that are
                                                         not themselves a submodule of the design: none
   class 4  csr.Register       payload L [L field-paths]  -> as class 3 (without the "mux" entry)
   class 8  WishboneCSRBridge  payload as WbCsrBridgeE's configuration  -> [code]
   class 9  wishbone.Decoder   payload L [dec; L attempts] as WbDecoderE -> [L codes; A all-Case-patterns-fit]
   class 10 wishbone.Arbiter   payload L [cfg] as ArbiterE               -> [0] | [-2; k]
   class 11 WishboneSRAM       payload (size dw gran writable init) as SramE -> [code] *)
From Coq Require Import ZArith List Bool.
From Soc Require Import Lib.Sx Lib.Bits Lib.Res Lib.Pattern Model.Mux Model.Elab.
From Soc Require Model.CsrDecoder Model.WbCsrBridge Model.WbDecoder Model.Arbiter Model.Sram.
From Soc Require Engine.MuxE Engine.WbCsrBridgeE Engine.WbDecoderE Engine.ArbiterE Engine.SramE.
Import ListNotations.
Open Scope Z_scope.

Definition code_of (e : exn) : Z := exn_code e.

(* ---------- class 1 ---------- *)
Definition enc_step (i : inst) (e : emitted) : sx :=
  L [A (sh_size (i_r i)); A (sh_size (i_w i)); zl (map fst (e_r e)); zl (map fst (e_w e))].

Fixpoint trace_now (k : nat) (i : inst) (regs : list reg) : list sx :=
  match k with
  | O => []
  | S k' =>
      match elaborate_now i regs with
      | Err e => [L [A (-3); A (code_of e)]]
      | Ok (i', em) => enc_step i' em :: trace_now k' i' regs
      end
  end.

Definition run_mux_elab (p : sx) : sx :=
  match p with
  | L [L [A im; A hw; A br]; L rs; ov; A k] =>
      match mapM MuxE.dec_reg rs with
      | Some regs =>
          let ovo := match ov with L [A v] => Some v | _ => None end in
          let c := mux_check (z2b im) (z2b hw) (z2b br) in
          if negb (c =? 0) then L [A 1; A c]
          else if k <? 0 then bad 12
          else L [A 1; A 0; L (trace_now (Z.to_nat k) (new_inst ovo) regs)]
      | None => bad 11
      end
  | _ => bad 10
  end.

(* ---------- class 2 ---------- *)
Definition csr_add_code (dw : Z) (s : sx) : option sx :=
  match s with
  | L [A isif; A sdw; A placed] =>
      Some (L [A (match CsrDecoder.add_check dw (z2b isif) sdw with
                  | CsrDecoder.Err CsrDecoder.TypeError => 2
                  | CsrDecoder.Err CsrDecoder.ValueError => 1
                  | CsrDecoder.Ok => if z2b placed then 0 else 1
                  end)])
  | _ => None
  end.

Definition dec_csr_win (s : sx) : option CsrDecoder.sub :=
  match s with
  | L [A a; A st; A sp] => Some {| CsrDecoder.s_aw := a; CsrDecoder.s_start := st; CsrDecoder.s_stop := sp |}
  | _ => None
  end.

Definition run_csrdec_elab (p : sx) : sx :=
  match p with
  | L [A aw; A dw; L adds; L wins] =>
      match mapM (csr_add_code dw) adds, mapM dec_csr_win wins with
      | Some codes, Some ws => L [A 2; L codes; A (b2z (CsrDecoder.elab_ok aw ws))]
      | _, _ => bad 21
      end
  | _ => bad 20
  end.

(* ---------- classes 3 and 4 ---------- *)
Definition dec_part (s : sx) : option part :=
  match s with
  | L (A 0 :: cs) => match getZs cs with Some l => Some (PStr l) | None => None end
  | L [A 1; A n] => Some (PInt n)
  | _ => None
  end.

Definition dec_name (s : sx) : option (list part) :=
  match s with L ps => mapM dec_part ps | _ => None end.

Definition enc_sub (o : option str) : sx :=
  match o with Some s => zl s | None => L [A (-1)] end.

(* Fragment.subfragments lists the named submodules of a Module first, then the anonymous ones *)
Definition is_named (o : option str) : bool := match o with Some _ => true | None => false end.
Definition amaranth_order (l : list (option str)) : list (option str) :=
  filter is_named l ++ filter (fun o => negb (is_named o)) l.

Definition run_names (cls : Z) (f : list (list part) -> res (list (option str))) (p : sx) : sx :=
  match p with
  | L [L ns] =>
      match mapM dec_name ns with
      | Some names =>
          match f names with
          | Ok subs => L [A cls; A 0; L (map enc_sub (amaranth_order subs)); A 0]   (* 0 = nothing left out *)
          | Err e => L [A cls; A (-3); A (code_of e)]
          end
      | None => bad 31
      end
  | _ => bad 30
  end.

(* ---------- class 8 ---------- *)
Definition run_wbcsr_elab (p : sx) : sx :=
  match WbCsrBridgeE.dec_kcfg p with
  | Some kc =>
      if (WbCsrBridge.k_caw kc <=? 0) || (WbCsrBridge.k_cdw kc <=? 0) then bad 82 else
      match WbCsrBridge.construct kc with
      | WbCsrBridge.Err WbCsrBridge.ValueError => L [A 8; A 1]
      | WbCsrBridge.Err WbCsrBridge.TypeError => L [A 8; A 2]
      | WbCsrBridge.Ok _ => L [A 8; A 0]
      end
  | None => bad 81
  end.

(* ---------- class 9 ---------- *)
Definition wb_add_code (d : WbDecoder.geom) (a : WbDecoder.attempt) : Z :=
  match a with
  | (g, sp, ow) => if WbDecoder.add_ok d g sp then (match ow with Some _ => 0 | None => 2 end) else 2
  end.

Definition wb_patterns_fit (c : WbDecoder.cfg) : bool :=
  forallb (fun s => Z.of_nat (length (WbDecoder.sub_pattern c s)) =? WbDecoder.c_aw c) (WbDecoder.c_subs c).

Definition run_wbdec_elab (p : sx) : sx :=
  match p with
  | L [L [A a; A d; A g; f]; L atts] =>
      match WbDecoderE.dec_geom a d g f, mapM WbDecoderE.dec_attempt atts with
      | Some dg, Some al =>
          let c := {| WbDecoder.c_geom := dg; WbDecoder.c_subs := WbDecoder.added dg al |} in
          L [A 9; zl (map (wb_add_code dg) al); A (b2z (wb_patterns_fit c))]
      | _, _ => bad 91
      end
  | _ => bad 90
  end.

(* ---------- class 10 ---------- *)
Definition run_arbiter_elab (p : sx) : sx :=
  match p with
  | L [c] =>
      match ArbiterE.dec_cfg c with
      | Some cf =>
          match Arbiter.first_refused cf 0 (Arbiter.c_intrs cf) with
          | Some k => L [A 10; A (-2); A (Z.of_nat k)]
          | None => L [A 10; A 0]
          end
      | None => bad 101
      end
  | _ => bad 100
  end.

(* ---------- class 11 ---------- *)
Definition run_sram_elab (p : sx) : sx :=
  match p with
  | L [size; dw; gran; A wr; init] =>
      match SramE.dec_pyarg size, SramE.dec_pyarg dw, SramE.dec_pyarg gran, getZL init with
      | Some sz, Some d, Some g, Some ini =>
          match Sram.construct sz d g (z2b wr) ini with
          | Sram.Err Sram.TypeError => L [A 11; A 2]
          | Sram.Err Sram.ValueError => L [A 11; A 1]
          | Sram.Ok _ => L [A 11; A 0]
          end
      | _, _, _, _ => bad 111
      end
  | _ => bad 110
  end.

Definition run_elab (s : sx) : sx :=
  match s with
  | L [A cls; A 0; _] => L [A cls]
  | L [A cls; A 1; p] =>
      match cls with
      | 1 => run_mux_elab p
      | 2 => run_csrdec_elab p
      | 3 => run_names 3 bridge_submodules p
      | 4 => run_names 4 register_submodules p
      | 8 => run_wbcsr_elab p
      | 9 => run_wbdec_elab p
      | 10 => run_arbiter_elab p
      | 11 => run_sram_elab p
      | _ => bad 2
      end
  | _ => bad 0
  end.
