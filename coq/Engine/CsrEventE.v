(* sx codec for the CSR event monitor model.
   case   = L [L modes; dw; al; A trigger; attach; L cycles]
     modes    trigger mode of every source added to the EventMap, in order: 0 level, 1 rise, 2 fall
     dw, al   data_width / alignment as passed: (z) an int, () None, (()) some other object
     trigger  trigger= argument: 0 level, 1 rise, 2 fall, anything else = not a valid Source.Trigger
     attach   ()                     the monitor's own bus port is driven (directly, or through
                                     wiring.connect() from an initiator interface: same signals)
              (d_aw d_al addr)       csr.Decoder(addr_width=d_aw, data_width=dw, alignment=d_al);
                                     decoder.add(mon.bus, name="mon", addr=addr); the decoder's bus is driven
     cycle    L [A addr; A r_stb; A w_stb; A w_data; L i_per_source]
   result = (-2 e)   the constructor raises e (Lib/Res.v exn_code)
            (-3 e)   Decoder.add() raises e
            (-4)     the decoder does not elaborate
            (-5 e)   all_resources() raises e
            L [A addr_width; A trigger; layout of mon.bus.memory_map; layout of the driven bus's map; L rows]
     layout   all_resources() as ((path start end width) ...), path = list of names, name = list of parts,
              part = atom | (int)
     row      L [A r_data; A src_i; L trg_per_source] *)
From Coq Require Import ZArith List Bool.
From Soc Require Import Lib.Sx Lib.Bits Lib.Res Model.CsrEvent.
From Soc Require Model.Mux Model.Event Model.MemoryMap Model.CsrDecoder.
Import ListNotations.
Open Scope Z_scope.

Definition dec_mode (z : Z) : option Event.mode :=
  if z =? 0 then Some Event.Level else if z =? 1 then Some Event.Rise else if z =? 2 then Some Event.Fall else None.

Definition dec_py (s : sx) : option pyint :=
  match s with
  | L [A z] => Some (VInt z)
  | L [] => Some VNone
  | L [L []] => Some VBad
  | _ => None
  end.

Definition dec_cycle (n : nat) (s : sx) : option cinp :=
  match s with
  | L [A a; A r; A w; A d; L iv] =>
      match getZs iv with
      | Some l => if Nat.eqb (length l) n
                  then Some {| ci_addr := a; ci_rstb := z2b r; ci_wstb := z2b w; ci_wdata := d;
                               ci_src := map z2b l |}
                  else None
      | None => None
      end
  | _ => None
  end.

Definition dec_attach (s : sx) : option (option dparams) :=
  match s with
  | L [] => Some None
  | L [A aw; A al; ad] => match dec_py ad with
                          | Some a => Some (Some {| d_aw := aw; d_al := al; d_addr := a |})
                          | None => None end
  | _ => None
  end.

Definition enc_part (p : MemoryMap.part) : sx :=
  match p with MemoryMap.PStr a => A a | MemoryMap.PInt n => L [A n] end.

Definition enc_info (i : MemoryMap.info) : sx :=
  L [L (map (fun nm => L (map enc_part nm)) (MemoryMap.i_path i));
     A (MemoryMap.i_start i); A (MemoryMap.i_end i); A (MemoryMap.i_width i)].

Definition enc_out (o : cout) : sx := L [A (co_rdata o); A (b2z (co_irq o)); zl (map b2z (co_trg o))].

Definition run_csrevent (s : sx) : sx :=
  match s with
  | L [ms; dws; als; A trig; att; L cycles] =>
      match getZL ms with
      | None => bad 1
      | Some mz =>
          match mapM dec_mode mz, dec_py dws, dec_py als, dec_attach att with
          | Some modes, Some dw, Some al, Some at_ =>
              match mapM (dec_cycle (length modes)) cycles with
              | None => bad 3
              | Some is =>
                  match construct {| p_modes := modes; p_dw := dw; p_al := al; p_trigger := trig |} with
                  | Err e => L [A (-2); A (exn_code e)]
                  | Ok b =>
                      match MemoryMap.all_resources (b_map b) with
                      | Err e => L [A (-5); A (exn_code e)]
                      | Ok inner =>
                          match at_ with
                          | None =>
                              L [A (b_aw b); A (b_trigger b); L (map enc_info inner); L (map enc_info inner);
                                 L (map enc_out (run b (init b) is))]
                          | Some d =>
                              match attach b d with
                              | Err e => L [A (-3); A (exn_code e)]
                              | Ok a =>
                                  if negb (CsrDecoder.elab_ok (a_aw a) [a_sub a]) then L [A (-4)]
                                  else match MemoryMap.all_resources (a_map a) with
                                       | Err e => L [A (-5); A (exn_code e)]
                                       | Ok outer =>
                                           L [A (b_aw b); A (b_trigger b); L (map enc_info inner);
                                              L (map enc_info outer); L (map enc_out (run_attached b a is))]
                                       end
                              end
                          end
                      end
                  end
              end
          | _, _, _, _ => bad 2
          end
      end
  | _ => bad 0
  end.
