(* sx codec for the arbiter model: case = L [cfg; L cycles] *)
From Coq Require Import ZArith List Bool.
From Soc Require Import Lib.Sx Lib.Bits Model.Arbiter.
Import ListNotations.
Open Scope Z_scope.

Definition dec_feat (s : sx) : option feat :=
  match getZL s with
  | Some [a; b; c; d; e; f] =>
      Some {| f_err := z2b a; f_rty := z2b b; f_stall := z2b c; f_lock := z2b d;
              f_cti := z2b e; f_bte := z2b f |}
  | _ => None
  end.

Definition dec_icfg (s : sx) : option icfg :=
  match s with
  | L [A a; A d; A g; f] => match dec_feat f with
                       | Some ft => Some {| i_aw := a; i_dw := d; i_g := g; i_feat := ft |}
                       | None => None end
  | _ => None
  end.

Definition dec_cfg (s : sx) : option cfg :=
  match s with
  | L [A a; A d; A g; f; L is] =>
      match dec_feat f, mapM dec_icfg is with
      | Some ft, Some l => Some {| c_aw := a; c_dw := d; c_g := g; c_feat := ft; c_intrs := l |}
      | _, _ => None end
  | _ => None
  end.

Definition dec_iin (s : sx) : option iin :=
  match getZL s with
  | Some [c; s'; w; a; d; se; l; ct; bt] =>
      Some {| cyc := z2b c; stb := z2b s'; we := z2b w; adr := a; dat_w := d; sel := se;
              lock := z2b l; cti := ct; bte := bt |}
  | _ => None
  end.

Definition dec_bin (s : sx) : option bin :=
  match getZL s with
  | Some [a; e; r; st; d] =>
      Some {| ack := z2b a; err := z2b e; rty := z2b r; stall := z2b st; dat_r := d |}
  | _ => None
  end.

Definition dec_inp (s : sx) : option inp :=
  match s with
  | L [L is; b] => match mapM dec_iin is, dec_bin b with
                   | Some l, Some bb => Some {| in_i := l; in_b := bb |}
                   | _, _ => None end
  | _ => None
  end.

Definition enc_bout (b : bout) : sx :=
  zl [o_adr b; o_dat_w b; o_sel b; b2z (o_we b); b2z (o_stb b); b2z (o_cyc b);
      b2z (o_lock b); o_cti b; o_bte b].
Definition enc_iout (o : iout) : sx :=
  zl [b2z (r_ack o); b2z (r_err o); b2z (r_rty o); b2z (r_stall o); r_dat_r o].
Definition enc_out (o : outp) : sx := L [enc_bout (out_b o); L (map enc_iout (out_i o))].

Definition run_arbiter (s : sx) : sx :=
  match s with
  | L [c; L cycles] =>
      match dec_cfg c, mapM dec_inp cycles with
      | Some cf, Some is =>
          match first_refused cf 0 (c_intrs cf) with
          | Some k => L [A (-2); A (Z.of_nat k)]       (* add() number k raises ValueError *)
          | None =>
              if forallb (fun i => Nat.eqb (length (in_i i)) (nintr cf)) is
              then L [L (map enc_out (run cf 0%nat is)); A (Z.of_nat (state_after cf 0%nat is))]
              else bad 2
          end
      | _, _ => bad 1
      end
  | _ => bad 0
  end.
