(* sx codec for the Wishbone->CSR bridge model.
   case   = L [ L [A caw; A cdw; L [] | L [A data_width]] ; L cycles ]
   cycle  = L [cyc; stb; we; adr; sel; dat_w; r_data]
   result = L [A (-2); A code]                     constructor refused (1 = ValueError, 2 = TypeError)
          | L [ geometry ; L rows ],  row = [ack; dat_r; addr; r_stb; w_stb; w_data] *)
From Coq Require Import ZArith List Bool.
From Soc Require Import Lib.Sx Lib.Bits Model.WbCsrBridge.
Import ListNotations.
Open Scope Z_scope.

Definition dec_kcfg (s : sx) : option kcfg :=
  match s with
  | L [A a; A d; L []] => Some {| k_caw := a; k_cdw := d; k_dw := None |}
  | L [A a; A d; L [A w]] => Some {| k_caw := a; k_cdw := d; k_dw := Some w |}
  | _ => None
  end.

Definition dec_inp (s : sx) : option inp :=
  match getZL s with
  | Some [c; s'; w; a; se; d; r] =>
      Some {| cyc := z2b c; stb := z2b s'; we := z2b w; adr := a; sel := se; dat_w := d; r_data := r |}
  | _ => None
  end.

Definition enc_geom (g : geom) : sx :=
  zl [g_r g; g_wb_aw g; g_wb_dw g; g_gran g; g_mm_aw g; g_mm_dw g;
      g_win_start g; g_win_stop g; g_win_ratio g].

Definition enc_out (o : outp) : sx :=
  zl [b2z (o_ack o); o_dat_r o; o_addr o; b2z (o_r_stb o); b2z (o_w_stb o); o_w_data o].

Definition exn_code (e : exn) : Z := match e with ValueError => 1 | TypeError => 2 end.

Definition run_bridge (s : sx) : sx :=
  match s with
  | L [k; L cycles] =>
      match dec_kcfg k, mapM dec_inp cycles with
      | Some kc, Some is =>
          (* precondition of the modelled constructor: an existing csr.Interface *)
          if (k_caw kc <=? 0) || (k_cdw kc <=? 0) then bad 2 else
          match construct kc with
          | Err e => L [A (-2); A (exn_code e)]
          | Ok g => L [enc_geom g; L (map enc_out (run (cfg_of kc g) init is))]
          end
      | _, _ => bad 1
      end
  | _ => bad 0
  end.
