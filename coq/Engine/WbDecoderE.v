(* sx codec for the Wishbone decoder model.
   case    = L [dec; L attempts; L cycles]
   dec     = L [A aw; A dw; A g; feat]                 feat = L [err; rty; stall; lock; cti; bte]
   attempt = L [A aw; A dw; A g; feat; A sparse; win]  win = L [] | L [A start; A stop; A ratio; A map_aw]
   cycle   = L [req; L resps]   req = (cyc stb we adr dat_w sel lock cti bte)
                                resp = (ack err rty stall dat_r), one per ADDED subordinate, add() order
   result  = L [verdicts; L outs]   verdicts: 1 = add() passes the decoder's own checks
             out = L [L souts; bresp]  sout = (adr dat_w sel we stb cyc lock cti bte), bresp = (ack err rty stall dat_r) *)
From Coq Require Import ZArith List Bool.
From Soc Require Import Lib.Sx Lib.Bits Lib.Pattern Model.WbDecoder.
Import ListNotations.
Open Scope Z_scope.

Definition dec_feat (s : sx) : option feat :=
  match getZL s with
  | Some [a; b; c; d; e; f] =>
      Some {| f_err := z2b a; f_rty := z2b b; f_stall := z2b c; f_lock := z2b d;
              f_cti := z2b e; f_bte := z2b f |}
  | _ => None
  end.

Definition dec_geom (a d g : Z) (f : sx) : option geom :=
  match dec_feat f with
  | Some ft => Some {| g_aw := a; g_dw := d; g_g := g; g_feat := ft |}
  | None => None
  end.

Definition dec_win (s : sx) : option (option window) :=
  match s with
  | L [] => Some None
  | L [A a; A b; A r; A w] => Some (Some {| w_start := a; w_stop := b; w_ratio := r; w_aw := w |})
  | _ => None
  end.

Definition dec_attempt (s : sx) : option attempt :=
  match s with
  | L [A a; A d; A g; f; A sp; w] =>
      match dec_geom a d g f, dec_win w with
      | Some gm, Some ow => Some (gm, z2b sp, ow)
      | _, _ => None
      end
  | _ => None
  end.

Definition dec_breq (s : sx) : option breq :=
  match getZL s with
  | Some [c; s'; w; a; d; se; l; ct; bt] =>
      Some {| cyc := z2b c; stb := z2b s'; we := z2b w; adr := a; dat_w := d; sel := se;
              lock := z2b l; cti := ct; bte := bt |}
  | _ => None
  end.

Definition dec_sresp (s : sx) : option sresp :=
  match getZL s with
  | Some [a; e; r; st; d] =>
      Some {| ack := z2b a; err := z2b e; rty := z2b r; stall := z2b st; dat_r := d |}
  | _ => None
  end.

Definition dec_inp (s : sx) : option inp :=
  match s with
  | L [q; L rs] => match dec_breq q, mapM dec_sresp rs with
                   | Some qq, Some l => Some {| in_b := qq; in_s := l |}
                   | _, _ => None
                   end
  | _ => None
  end.

Definition enc_sout (o : sout) : sx :=
  zl [o_adr o; o_dat_w o; o_sel o; b2z (o_we o); b2z (o_stb o); b2z (o_cyc o);
      b2z (o_lock o); o_cti o; o_bte o].
Definition enc_bresp (b : bresp) : sx :=
  zl [b2z (r_ack b); b2z (r_err b); b2z (r_rty b); b2z (r_stall b); r_dat_r b].
Definition enc_out (o : outp) : sx := L [L (map enc_sout (out_s o)); enc_bresp (out_b o)].

Definition run_wbdec (s : sx) : sx :=
  match s with
  | L [L [A a; A d; A g; f]; L atts; L cycles] =>
      match dec_geom a d g f, mapM dec_attempt atts, mapM dec_inp cycles with
      | Some dg, Some al, Some is =>
          let c := {| c_geom := dg; c_subs := added dg al |} in
          if forallb (fun i => Nat.eqb (length (in_s i)) (length (c_subs c))) is
          then L [zl (map b2z (add_verdicts dg al)); L (map (fun i => enc_out (out c i)) is)]
          else bad 2
      | _, _, _ => bad 1
      end
  | _ => bad 0
  end.
