(* sx codec for the csr.Builder model.
   case   = L [L [aw; dw; g]; A probe_atom; L ops]          (aw, dw, g : pyint encoding; probe_atom names
                                                           the resource used to probe the returned map)
   op     = L [A 0; name; reg; off]      add      name = L [A atom] | L []   reg = L [A id; A width] | L []
          | L [A 1; A 0; name; L body]   with Cluster(name)
          | L [A 1; A 1; idx; L body]    with Index(idx)
          | L [A 2]                      freeze
          | L [A 3]                      as_memory_map
   result = L [ctor; L obs]  with ctor = L [A 0] or L [A exn_code] *)
From Coq Require Import ZArith List Bool.
From Soc Require Import Lib.Sx Lib.Res Lib.PyList Model.MemoryMap Engine.MemMapE Model.Builder.
Import ListNotations.
Open Scope Z_scope.

Definition dec_rawstr (s : sx) : option rawstr :=
  match s with
  | L [A a] => Some (SStr a)
  | L [] => Some SOther
  | _ => None
  end.

Definition dec_regarg (s : sx) : option regarg :=
  match s with
  | L [A id; A w] => Some (RReg id w)
  | L [] => Some RNotReg
  | _ => None
  end.

Fixpoint dec_bop (s : sx) : option bop :=
  match s with
  | L [A 0; nm; r; off] =>
      match dec_rawstr nm, dec_regarg r with
      | Some n, Some rg => Some (BAdd n rg (dec_pyint off))
      | _, _ => None
      end
  | L [A 1; A kind; arg; L body] =>
      let k := if kind =? 0
               then match dec_rawstr arg with Some n => Some (KCluster n) | None => None end
               else if kind =? 1 then Some (KIndex (dec_pyint arg)) else None in
      let bd := (fix go (l : list sx) : option (list bop) :=
                   match l with
                   | [] => Some []
                   | x :: l' => match dec_bop x, go l' with
                                | Some o, Some r => Some (o :: r)
                                | _, _ => None
                                end
                   end) body in
      match k, bd with
      | Some k', Some b => Some (BScope k' b)
      | _, _ => None
      end
  | L [A 2] => Some BFreeze
  | L [A 3] => Some BAsMap
  | _ => None
  end.

Definition enc_unit (r : res unit) : sx := match r with Ok _ => A 0 | Err e => A (exn_code e) end.

(* id and name of the probe resource added to the returned map to observe that it is frozen *)
Definition probe_id : Z := -1.

Definition enc_map (probe_atom : Z) (m : mmap) : sx :=
  let rs := L (map (fun '(id, nm, s, e) => L [A id; enc_name nm; A s; A e]) (resources m)) in
  let ar := match all_resources m with
            | Ok l => L [A 0; L (map enc_info l)]
            | Err e => enc_err e end in
  let pr := match add_resource m probe_id true (NStr probe_atom) (VInt 1) VNone VNone with
            | Ok (_, (s, e)) => L [A 0; A s; A e]
            | Err e => enc_err e end in
  L [A 0; zl [m_aw m; m_dw m; m_al m]; rs; ar; pr].

Fixpoint enc_bobs (pa : Z) (o : bobs) : sx :=
  match o with
  | OAdd r => L [enc_unit r]
  | OScope en body ex => L [enc_unit en; L (map (enc_bobs pa) body); enc_unit ex]
  | OFrz => L [A 0]
  | OMap (Ok m) => enc_map pa m
  | OMap (Err e) => enc_err e
  end.

Definition run_builder (s : sx) : sx :=
  match s with
  | L [L [aw; dw; g]; A pa; L ops] =>
      match mapM dec_bop ops with
      | Some l =>
          match new_builder (dec_pyint aw) (dec_pyint dw) (dec_pyint g) with
          | Err e => L [enc_err e; L []]
          | Ok b => L [L [A 0]; L (map (enc_bobs pa) (snd (run_ops b l)))]
          end
      | None => bad 1
      end
  | _ => bad 0
  end.
