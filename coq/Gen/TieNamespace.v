(* Tie lemmas, namespace stage: MemoryMap.Name.__new__, class _Namespace and the namespace statements of
   MemoryMap.add_resource / add_window, regenerated from /repo's source by harness/translate4.py
   (NamespaceGen.v, rewritten on every run), against Model/MemoryMap.v: mk_name, is_available (with conflict_loop,
   conflicts, check_reserved) and the `m_names` updates of add_resource / add_window.

   `order` is the list that `sorted(self._assignments.keys() | set(names[name_idx + 1:]), key=...)` returns; the
   lemmas assume only that it has the elements of its argument (`order_ok`), and the results do not depend on it.

   Preconditions, all of them invariants of reachable worlds (tie_world_* discharge them for every history):
     - the assigned names are non-empty (tie_ns_is_available and what uses it).  Without it the model and the
       code agree on the boolean or both fail (tie_ns_is_available_sim: IndexError = Err OtherError, or the assert)
       but WHICH error comes first depends on the order in which the reserved names are visited, which the model
       fixes arbitrarily (assigned ++ later queries) and the code by sorting; with it `reserved_name[part_idx]`
       never leaves the tuple.  tie_ns_is_available_ord is the unconditional equality behind both.
     - names handed over as Name objects (the names of an anonymous window) are well-formed (wf_name: non-empty,
       made of non-empty strings / non-negative ints): the code validates them again (MemoryMap.Name(name) for
       name in names), the model does not.
   The assert `reserved_name in self._assignments` is handled faithfully: both sides answer Err AssertionError
   exactly when a queried name conflicts with a later queried name (tie_ns_is_available is an equality of
   results, errors included).

   The proofs do not mention generated variable names: loop bodies are picked out of the goal by `context`
   patterns and shown equal to a normal form (Proofs/NamespaceTie.v) by case analysis + lia / congruence. *)
From Coq Require Import ZArith List Bool Lia ZifyBool Arith.
From Soc Require Import Lib.Res Lib.PyList Lib.PyLoop Lib.PyNames Model.MemoryMap Model.MemSpec
                        Proofs.MemNames Proofs.Namespace Proofs.NamespaceInv Proofs.NamespaceTie.
From SocGen Require Import NamespaceGen.
Import ListNotations.
Open Scope Z_scope.

(* case analysis on every `if` / result match in the goal, then arithmetic *)
Ltac split_ifs :=
  repeat match goal with
         | |- context [if ?b then _ else _] => destruct b eqn:?
         end;
  try reflexivity; try congruence; try (exfalso; lia).

(* decide the conditions that only depend on `0 < py_len L` *)
Ltac decide_len :=
  repeat match goal with
         | |- context [if ?b then _ else _] =>
             first [ replace b with false by lia | replace b with true by lia ]; cbv iota
         end.

(* ------------------------------------------------------------------ MemoryMap.Name *)

Theorem tie_name_new : forall r, gen_name_new r = mk_name r.
Proof.
  intros [a|l|].
  - unfold gen_name_new. cbn. split_ifs.
  - destruct l as [|x l']; [reflexivity|].
    assert (Hpos : 0 < py_len (x :: l')) by apply py_len_pos.
    assert (Hmk : mk_name (NTuple (x :: l')) = mapR valid_part (x :: l')) by reflexivity.
    rewrite Hmk. clear Hmk. remember (x :: l') as L eqn:HL. clear HL x l'.
    unfold gen_name_new.
    cbn [is_nstr is_ntuple negb raw_len raw_iter raw_tuple bind].
    decide_len. cbn [bind].
    apply validate_loop.
    + intros [a|n|] u; cbn; destruct u; split_ifs.
    + intros u. cbn [cast_name]. apply bind_ret.
  - reflexivity.
Qed.
Print Assumptions tie_name_new.

(* ------------------------------------------------------------------ _Namespace *)

Theorem tie_ns_init : gen_ns_init = Ok [].
Proof. reflexivity. Qed.
Print Assumptions tie_ns_init.

Theorem tie_ns_names : forall assigned, gen_ns_names assigned = assigned.
Proof. intros. unfold gen_ns_names. rewrite ?app_nil_r. reflexivity. Qed.
Print Assumptions tie_ns_names.

Definition order_ok (order : list name -> list name) : Prop := forall l x, In x (order l) <-> In x l.

Lemma ns_has_name_in d k : ns_has d k = name_in k d.
Proof. reflexivity. Qed.

(* is_available, unconditionally (any assigned list, any raw queries, any `order` function, with and without a
   `reasons` list): the regenerated code is the model's is_available with each queried name checked against
   `order (assigned ++ later queries)` instead of `assigned ++ later queries` (is_available_ord) *)
Theorem tie_ns_is_available_ord : forall order assigned raws reasons,
  gen_ns_is_available order assigned raws reasons =
  (let! qs := mapR mk_name raws in is_available_ord order assigned qs).
Proof.
  intros order assigned raws reasons. unfold gen_ns_is_available.
  match goal with |- context [mapR ?f raws] => rewrite (mapR_ext f mk_name) end.
  2: { intros x. rewrite tie_name_new. apply bind_ret. }
  destruct (mapR mk_name raws) as [qs|e] eqn:Hqs; cbn [bind]; [|reflexivity]. cbv zeta.
  match goal with |- context [for_each ?b (py_enumerate qs) ?c] =>
    rewrite (outer_loop order assigned b qs) end.
  - destruct (is_available_ord order assigned qs) as [b|e]; cbn [after_loop orb]; [|reflexivity].
    rewrite ?negb_involutive. reflexivity.
  - (* body of the loop over the queried names *)
    intros pre nm rest c Hsplit. cbv beta iota zeta.
    repeat match goal with |- context [py_slice_from qs ?e] =>
      progress (replace e with (py_len pre + 1) by lia) end.
    rewrite Hsplit at 1. rewrite py_slice_from_next.
    match goal with |- context [for_each ?b (order ?l) ?c0] =>
      rewrite (middle_loop assigned b nm) end.
    + match goal with |- context [check_reserved ?a ?b ?l] => destruct (check_reserved a b l) end; reflexivity.
    + (* body of the loop over the reserved names *)
      intros rs c'. cbv beta iota zeta.
      match goal with |- context [for_each ?b (py_enumerate nm) ?c0] =>
        rewrite (inner_loop assigned b nm rs) end.
      * unfold inner_result. destruct (conflicts nm rs) as [[|]|]; cbn [after_loop_in]; try reflexivity.
        destruct (name_in rs assigned); reflexivity.
      * (* body of the loop over the parts *)
        intros idx p c''. unfold inner_spec. cbv beta iota zeta.
        rewrite ?ns_has_name_in. unfold ns_get, dict_get. fold (ns_has assigned rs). rewrite ?ns_has_name_in.
        destruct (py_index rs idx) as [r|e]; cbn [bind]; [|reflexivity].
        destruct reasons; split_ifs.
Qed.
Print Assumptions tie_ns_is_available_ord.

(* is_available: same result, same exception as the model, for all assigned lists of non-empty names, all raw
   queries, whatever order `sorted` produces *)
Theorem tie_ns_is_available : forall order, order_ok order -> forall assigned raws reasons,
  (forall a, In a assigned -> a <> []) ->
  gen_ns_is_available order assigned raws reasons = (let! qs := mapR mk_name raws in is_available assigned qs).
Proof.
  intros order Hord assigned raws reasons Hne. rewrite tie_ns_is_available_ord.
  destruct (mapR mk_name raws) as [qs|e] eqn:Hqs; cbn [bind]; [|reflexivity].
  apply is_available_ord_eq; [exact Hord|exact Hne|].
  apply Forall_forall. eapply mapR_ok_Forall; [|exact Hqs]. intros x y. apply mk_name_nonempty.
Qed.
Print Assumptions tie_ns_is_available.

(* ... and for arbitrary assigned lists: the same boolean, or an exception on both sides *)
Theorem tie_ns_is_available_sim : forall order, order_ok order -> forall assigned raws reasons,
  res_sim (gen_ns_is_available order assigned raws reasons) (let! qs := mapR mk_name raws in is_available assigned qs).
Proof.
  intros order Hord assigned raws reasons. rewrite tie_ns_is_available_ord.
  destruct (mapR mk_name raws) as [qs|e] eqn:Hqs; cbn [bind]; [|exact I].
  apply is_available_ord_sim; [exact Hord|].
  apply Forall_forall. eapply mapR_ok_Forall; [|exact Hqs]. intros x y. apply mk_name_nonempty.
Qed.
Print Assumptions tie_ns_is_available_sim.

(* the same for queries that are Name objects already *)
Corollary tie_ns_is_available_names : forall order, order_ok order -> forall assigned qs reasons,
  (forall a, In a assigned -> a <> []) -> Forall wf_name qs ->
  gen_ns_is_available order assigned (map raw_of_name qs) reasons = is_available assigned qs.
Proof.
  intros order Hord assigned qs reasons Hne Hwf. rewrite tie_ns_is_available by assumption.
  rewrite mapR_mk_name_raw_of by assumption. reflexivity.
Qed.
Print Assumptions tie_ns_is_available_names.

(* assign: refused with AssertionError unless available, otherwise exactly one key more (for every raw name) *)
Theorem tie_ns_assign : forall order, order_ok order -> forall assigned raw,
  (forall a, In a assigned -> a <> []) ->
  gen_ns_assign order assigned raw =
  (let! n := mk_name raw in
   let! av := is_available assigned [n] in
   if av then Ok (assigned ++ [n]) else Err AssertionError).
Proof.
  intros order Hord assigned raw Hne. unfold gen_ns_assign.
  rewrite tie_ns_is_available by assumption. cbn [mapR]. rewrite tie_name_new.
  destruct (mk_name raw) as [n|e] eqn:Hn; cbn [bind]; [|reflexivity].
  destruct (is_available assigned [n]) as [[|]|e] eqn:Ha; cbn [bind negb]; try reflexivity.
  cbv zeta. f_equal. apply ns_set_new.
  apply (available_not_in assigned n []); [eapply mk_name_nonempty; eauto|exact Ha].
Qed.
Print Assumptions tie_ns_assign.

(* extend: refused with AssertionError unless all of the other namespace's names are available (and do not
   conflict among themselves), otherwise the keys of the other dict are appended: a merge, nothing replaced *)
Theorem tie_ns_extend : forall order, order_ok order -> forall assigned other,
  (forall a, In a assigned -> a <> []) -> Forall wf_name other ->
  gen_ns_extend order assigned other =
  (let! av := is_available assigned other in
   if av then Ok (assigned ++ other) else Err AssertionError).
Proof.
  intros order Hord assigned other Hne Hwf. unfold gen_ns_extend. cbn [negb].
  rewrite tie_ns_names, tie_ns_is_available_names by assumption.
  destruct (is_available assigned other) as [[|]|e] eqn:Ha; cbn [bind negb]; try reflexivity.
  cbv zeta. f_equal. apply ns_update_new; [|exact Ha].
  intros q Hq. rewrite Forall_forall in Hwf. apply (Hwf q Hq).
Qed.
Print Assumptions tie_ns_extend.

(* ------------------------------------------------------------------ MemoryMap.add_resource *)

(* what a call leaves in the namespace and how it ends: on success the names of the new map; a refused call leaves
   the names it found (the model keeps the old map) *)
Definition ns_outcome {A} (before : list name) (r : res (mmap * A)) : list name * res unit :=
  match r with Ok (m', _) => (m_names m', Ok tt) | Err e => (before, Err e) end.

(* the statements of the model that stand for the opaque blocks of add_resource, in the order of the code:
   the three entry checks; the alignment rule; _compute_addr_range; _RangeMap.insert.  (The two blocks that follow,
   recording the resource and moving the cursor, cannot fail in the model: Ok tt.)  A block is only run when the
   ones before it succeeded, so the later ones may assume that. *)
Definition res_pre (m : mmap) (id : Z) (is_comp : bool) : res unit :=
  let! _ := check (negb (m_frozen m)) ValueError in
  let! _ := check is_comp TypeError in
  check (negb (has_res m id)) ValueError.

Definition res_al (m : mmap) (alignment : pyint) : res Z :=
  match alignment with
  | VNone => Ok (m_al m)
  | _ => let! _ := check (nonneg alignment) ValueError in Ok (Z.max (zof alignment) (m_al m))
  end.

Definition res_align (m : mmap) (alignment : pyint) : res unit := let! _ := res_al m alignment in Ok tt.

Definition res_car (m : mmap) (size addr alignment : pyint) : res unit :=
  match res_al m alignment with
  | Ok al => let! _ := compute_addr_range m addr size al in Ok tt
  | Err _ => Ok tt
  end.

Definition res_ins (m : mmap) (id : Z) (size addr alignment : pyint) : res unit :=
  match res_al m alignment with
  | Ok al => match compute_addr_range m addr size al with
             | Ok (s, e) => let! _ := rm_insert (m_ranges m) {| e_start := s; e_stop := e; e_step := 1; e_asg := AR id |} in Ok tt
             | Err _ => Ok tt
             end
  | Err _ => Ok tt
  end.

(* which name is queried (the validated one, alone, with a reasons list), which exception a refusal raises, and
   that the namespace is updated only after every statement that can still raise: the regenerated statements end
   with the names of the model's resulting map, or with the model's exception and the namespace untouched *)
Theorem tie_add_resource_names : forall order, order_ok order ->
  forall m id is_comp nm size addr alignment,
  (forall a, In a (m_names m) -> a <> []) ->
  ns_outcome (m_names m) (add_resource m id is_comp nm size addr alignment) =
  gen_add_resource_ns order (m_names m) nm (res_pre m id is_comp) (res_align m alignment)
    (res_car m size addr alignment) (res_ins m id size addr alignment) (Ok tt) (Ok tt).
Proof.
  intros order Hord m id is_comp nm size addr alignment Hne.
  unfold gen_add_resource_ns, add_resource, res_pre, res_align, res_car, res_ins.
  fold (res_al m alignment).
  destruct (negb (m_frozen m)); cbn [check bind ns_outcome bind_st]; [|reflexivity].
  destruct is_comp; cbn [check bind ns_outcome bind_st]; [|reflexivity].
  destruct (negb (has_res m id)); cbn [check bind ns_outcome bind_st]; [|reflexivity].
  rewrite tie_name_new.
  destruct (mk_name nm) as [n|e] eqn:Hn; cbn [bind ns_outcome bind_st]; [|reflexivity]. cbv zeta.
  pose proof (mk_name_wf _ _ Hn) as Hwf.
  rewrite tie_ns_is_available, tie_ns_assign by assumption. cbn [mapR app]. rewrite !(mk_name_raw_of _ Hwf). cbn [bind].
  destruct (is_available (m_names m) [n]) as [[|]|e] eqn:Ha; cbn [check bind negb ns_outcome bind_st]; try reflexivity.
  destruct (res_al m alignment) as [al|e]; cbn [bind ns_outcome bind_st]; [|reflexivity].
  destruct (compute_addr_range m addr size al) as [[s e]|e]; cbn [bind ns_outcome bind_st]; [|reflexivity].
  destruct (rm_insert _ _) as [rs|e']; cbn [bind ns_outcome bind_st]; [|reflexivity].
  destruct m; reflexivity.
Qed.
Print Assumptions tie_add_resource_names.

(* ------------------------------------------------------------------ MemoryMap.add_window *)

Definition truthy (sparse : option bool) : bool := match sparse with Some true => true | _ => false end.

(* the opaque blocks of add_window: entry checks; ratio / size / alignment; _compute_addr_range; window.freeze()
   (cannot fail); _RangeMap.insert; the two final blocks (cannot fail) *)
Definition win_pre (m : mmap) (wid : Z) (w : mmap) (sparse : option bool) : res unit :=
  let! _ := check (negb (m_frozen m)) ValueError in
  let! _ := check (negb (has_win m wid)) ValueError in
  let! _ := check (negb (m_dw w >? m_dw m)) ValueError in
  if negb (m_dw w =? m_dw m) then
    let! _ := check (match sparse with None => false | _ => true end) ValueError in
    check (negb (negb (truthy sparse) && negb (m_dw m mod m_dw w =? 0))) ValueError
  else Ok tt.

Definition win_ratio (m w : mmap) (sparse : option bool) : Z := if negb (truthy sparse) then m_dw m / m_dw w else 1.

Definition win_arith (m w : mmap) (sparse : option bool) : res unit :=
  let ratio := win_ratio m w sparse in
  let! _ := check (Z.land ratio (ratio - 1) =? 0) ValueError in
  check (negb (ratio >? Z.shiftl 1 (m_al w))) ValueError.

Definition win_range (m w : mmap) (addr : pyint) (sparse : option bool) : res (Z * Z) :=
  let ratio := win_ratio m w sparse in
  compute_addr_range m addr (VInt (Z.shiftl 1 (m_aw w) / ratio)) (Z.max (m_al m) (m_aw w / ratio)).

Definition win_car (m w : mmap) (addr : pyint) (sparse : option bool) : res unit :=
  let! _ := win_range m w addr sparse in Ok tt.

Definition win_ins (m : mmap) (wid : Z) (w : mmap) (addr : pyint) (sparse : option bool) : res unit :=
  match win_range m w addr sparse with
  | Ok (s, e) =>
      let! _ := rm_insert (m_ranges m) {| e_start := s; e_stop := e; e_step := win_ratio m w sparse; e_asg := AW wid |} in
      Ok tt
  | Err _ => Ok tt
  end.

(* which names are queried: the validated name alone for a named window, every name of the window's namespace
   for an anonymous one; ValueError on refusal; update (assign / extend = append the queried names) after the
   statements that can still raise, and nothing changed when the call is refused *)
Theorem tie_add_window_names : forall order, order_ok order ->
  forall m wid w nm addr sparse,
  (forall a, In a (m_names m) -> a <> []) -> Forall wf_name (m_names w) ->
  ns_outcome (m_names m) (add_window m wid w nm addr sparse) =
  gen_add_window_ns order (m_names m) (m_names w) nm (win_pre m wid w sparse) (win_arith m w sparse)
    (win_car m w addr sparse) (Ok tt) (win_ins m wid w addr sparse) (Ok tt) (Ok tt).
Proof.
  intros order Hord m wid w nm addr sparse Hne Hwfw.
  unfold gen_add_window_ns, add_window, win_pre, win_arith, win_car, win_ins, win_range. fold (truthy sparse).
  fold (win_ratio m w sparse).
  destruct (negb (m_frozen m)); cbn [check bind ns_outcome bind_st]; [|reflexivity].
  destruct (negb (has_win m wid)); cbn [check bind ns_outcome bind_st]; [|reflexivity].
  destruct (negb (m_dw w >? m_dw m)); cbn [check bind ns_outcome bind_st]; [|reflexivity].
  match goal with |- context [bind (if negb (m_dw w =? m_dw m) then ?a else ?b) _] =>
    destruct (if negb (m_dw w =? m_dw m) then a else b) as [u|e]; cbn [bind ns_outcome bind_st]; [|reflexivity] end.
  destruct nm as [raw|]; cbn [bind bind_st].
  - (* named window *)
    rewrite tie_name_new.
    destruct (mk_name raw) as [n|e] eqn:Hn; cbn [bind ns_outcome bind_st]; [|reflexivity]. cbv zeta. cbn [bind bind_st].
    pose proof (mk_name_wf _ _ Hn) as Hwf.
    rewrite tie_ns_is_available, tie_ns_assign by assumption. cbn [map mapR app]. rewrite !(mk_name_raw_of _ Hwf). cbn [bind].
    destruct (is_available (m_names m) [n]) as [[|]|e] eqn:Ha; cbn [check bind negb ns_outcome bind_st]; try reflexivity.
    cbv zeta.
    destruct (check (Z.land _ _ =? 0) ValueError); cbn [bind ns_outcome bind_st]; [|reflexivity].
    destruct (check (negb (_ >? Z.shiftl 1 (m_al w))) ValueError); cbn [bind ns_outcome bind_st]; [|reflexivity].
    destruct (compute_addr_range m addr _ _) as [[s e]|e]; cbn [bind ns_outcome bind_st]; [|reflexivity].
    destruct (rm_insert _ _) as [rs|e']; cbn [bind ns_outcome bind_st]; [|reflexivity].
    destruct m; reflexivity.
  - (* anonymous window *)
    cbv zeta. cbn [bind bind_st]. rewrite tie_ns_names.
    rewrite (tie_ns_is_available_names order Hord (m_names m) (m_names w) true Hne Hwfw).
    rewrite tie_ns_extend by assumption.
    destruct (is_available (m_names m) (m_names w)) as [[|]|e] eqn:Ha; cbn [check bind negb ns_outcome bind_st]; try reflexivity.
    cbv zeta.
    destruct (check (Z.land _ _ =? 0) ValueError); cbn [bind ns_outcome bind_st]; [|reflexivity].
    destruct (check (negb (_ >? Z.shiftl 1 (m_al w))) ValueError); cbn [bind ns_outcome bind_st]; [|reflexivity].
    destruct (compute_addr_range m addr _ _) as [[s e]|e]; cbn [bind ns_outcome bind_st]; [|reflexivity].
    destruct (rm_insert _ _) as [rs|e']; cbn [bind ns_outcome bind_st]; [|reflexivity].
    destruct m; reflexivity.
Qed.
Print Assumptions tie_add_window_names.

(* ------------------------------------------------------------------ the preconditions hold in every reachable world *)

Theorem tie_world_add_resource : forall order, order_ok order -> forall w m, reachable w -> In m w ->
  forall id is_comp nm size addr alignment,
  ns_outcome (m_names m) (add_resource m id is_comp nm size addr alignment) =
  gen_add_resource_ns order (m_names m) nm (res_pre m id is_comp) (res_align m alignment)
    (res_car m size addr alignment) (res_ins m id size addr alignment) (Ok tt) (Ok tt).
Proof.
  intros order Hord w m Hr Hm id is_comp nm size addr alignment.
  apply tie_add_resource_names; [exact Hord|]. apply (reachable_names_ok w m Hr Hm).
Qed.
Print Assumptions tie_world_add_resource.

Theorem tie_world_add_window : forall order, order_ok order -> forall wd m wm, reachable wd -> In m wd -> In wm wd ->
  forall wid nm addr sparse,
  ns_outcome (m_names m) (add_window m wid wm nm addr sparse) =
  gen_add_window_ns order (m_names m) (m_names wm) nm (win_pre m wid wm sparse) (win_arith m wm sparse)
    (win_car m wm addr sparse) (Ok tt) (win_ins m wid wm addr sparse) (Ok tt) (Ok tt).
Proof.
  intros order Hord wd m wm Hr Hm Hwm wid nm addr sparse.
  apply tie_add_window_names; [exact Hord| |].
  - apply (reachable_names_ok wd m Hr Hm).
  - apply (reachable_wf wd wm Hr Hwm).
Qed.
Print Assumptions tie_world_add_window.

(* a fresh map starts with the namespace _Namespace.__init__ builds *)
Theorem tie_new_map_names : forall aw dw al m, new_map aw dw al = Ok m -> Ok (m_names m) = gen_ns_init.
Proof.
  intros aw dw al m H. unfold new_map in H.
  repeat (apply MemNames.bind_ok in H as (? & _ & H)). injection H as <-. reflexivity.
Qed.
Print Assumptions tie_new_map_names.

(* such an `order` exists (the statements above are not vacuous) *)
Theorem order_ok_id : order_ok (fun l => l).
Proof. intros l x. reflexivity. Qed.
Print Assumptions order_ok_id.
