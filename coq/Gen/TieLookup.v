(* Tie lemmas, fifth stage: the lookup methods of amaranth_soc/memory.py regenerated from /repo's source by
   harness/translate5.py (LookupGen.v, rewritten on every run) agree with Model/MemoryMap.v.

     _RangeMap.items             gen_rm_items l           = Ok (the entries of l, in order)  every list
     ResourceInfo.__init__       gen_resource_info        = mk_info                          all arguments
     ResourceInfo.<properties>   gen_info_<p> i           = Ok (the field of i)              every record
     MemoryMap._translate        gen_translate            = translate                        all arguments
     MemoryMap.resources         gen_resources m          = Ok (resources m)                 every map
     MemoryMap.windows           gen_windows m            = Ok (windows m)                   every map
     MemoryMap.window_patterns   gen_window_patterns m    = Ok (window_patterns m + names)   maps with starts >= 0
     MemoryMap.all_resources     all_resources  satisfies the regenerated unfolding equation  every map
     MemoryMap.find_resource     find_resource  satisfies the regenerated unfolding equation  every map
     MemoryMap.decode_address    decode_address satisfies the regenerated unfolding equation  well-formed maps

   How objects are read is fixed in Lib/LookupRep.v (and the docstring of translate5.py): an object kept in the
   range map is its `assign`; the model reports identities, so the generated lists are compared through
   obs_resource / obs_window (id |-> AR id / AW id), find_resource through find_resource_obj (a window object is
   never found) and decode_address through decode_address_res (the model's function is total, the code's may
   raise).

   Open recursion.  The three recursive methods are regenerated with the recursive call as a parameter `rec`
   (gen_*_step rec self ...).  The tie is (a) the model's Fixpoint satisfies the regenerated equation at every
   map, and (b) uniqueness: any function satisfying that equation at every map IS the model's function
   (induction on the nested map tree, using that the step only calls rec on the children held in m_wins:
   *_step_ext).  (a) + (b) pin the method down: it is an equality, not only a fixed-point property.

   Preconditions, and why.
   * window_patterns: Python prints a negative number with a sign, the model's fmt_bin does not; equal when
     every range starts at >= 0 (tie_window_patterns_nonneg), which wf_node gives (tie_window_patterns).
   * decode_address: on an object of the range map that is a key of neither dictionary the code runs into
     `assert False`, the model answers Some id / None.  Equal when every entry of m_ranges is found in m_ress
     or m_wins (entries_found, tie_decode_address_found); wf_node (Proofs/LookupWf.v, the invariant of C02/C03:
     m_ranges is a permutation of the entries of the two dictionaries, keys distinct) implies it, and every map
     reachable through the API is wf_tree (reachable_wf).  The theorems are stated with wf_node / wf_tree.
   * resources / windows / all_resources / find_resource need no invariant: model and code agree on every map,
     including the `assert False` of all_resources.
   * generators are compared as res (list _): see the docstring of translate5.py for what that forgets
     (laziness: which of two exceptions comes first). *)
From Coq Require Import ZArith List Bool Lia ZifyBool Arith.
From Soc Require Import Lib.Res Lib.PyList Model.MemoryMap Lib.LookupRep
  Proofs.RangeMap Proofs.LookupWf Proofs.Lookup Proofs.LookupTie.
From SocGen Require Import LookupGen.
Import ListNotations.
Open Scope Z_scope.

Ltac break_if :=
  match goal with
  | |- context [if ?c then _ else _] => destruct c eqn:?
  end.

(* closes a leaf after all conditions have been split: same result on both sides, possibly up to integer
   arithmetic in the arguments of the constructor / of mk_info, or contradictory conditions *)
Ltac settle :=
  cbn [bind]; try reflexivity; try discriminate; try (exfalso; lia);
  try solve [ f_equal; (reflexivity || lia) | f_equal; f_equal; (reflexivity || lia) ].

(* ------------------------------------------------------------------ _RangeMap.items *)

(* items() yields (range, object) for every key in list order: what the methods below iterate as `m_ranges self`,
   unpacking an entry x to (range_of_entry x, e_asg x) *)
Theorem tie_rm_items : forall l, gen_rm_items l = Ok (map (fun x => (range_of_entry x, e_asg x)) l).
Proof. intros l. unfold gen_rm_items. cbv zeta. apply concatR_map_single. intros x _. reflexivity. Qed.
Print Assumptions tie_rm_items.

(* ------------------------------------------------------------------ ResourceInfo.__init__, _translate *)

Theorem tie_resource_info : forall id path s e w,
  gen_resource_info id path s e w = mk_info id path s e w.
Proof.
  intros id path s e w. unfold gen_resource_info, mk_info, check. cbv zeta. rewrite ?map_id.
  repeat break_if; settle.
Qed.
Print Assumptions tie_resource_info.

(* each property returns the field the constructor stored under the same name *)
Theorem tie_info_properties : forall i,
  gen_info_resource i = Ok (i_res i) /\ gen_info_path i = Ok (i_path i) /\ gen_info_start i = Ok (i_start i) /\
  gen_info_end i = Ok (i_end i) /\ gen_info_width i = Ok (i_width i).
Proof. intros i. repeat split. Qed.
Print Assumptions tie_info_properties.

(* the whole method: the three asserts in order, path for named and anonymous windows, size / start / width,
   and the ResourceInfo it constructs (with that constructor's refusals) *)
Theorem tie_translate : forall i w n r,
  gen_translate i w n r = translate i (m_dw w) n (p_start r) (p_step r).
Proof.
  intros i w n r. unfold gen_translate, translate, check. cbv zeta. rewrite ?tie_resource_info.
  destruct n as [nm|]; repeat break_if; settle.
Qed.
Print Assumptions tie_translate.

(* ------------------------------------------------------------------ resources, windows, window_patterns *)

Definition obs_resource (t : Z * name * Z * Z) : assign * name * (Z * Z) :=
  let '(id, n, s, e) := t in (AR id, n, (s, e)).
Definition obs_window (t : Z * option name * Z * Z * Z) : assign * option name * (Z * Z * Z) :=
  let '(id, n, s, e, r) := t in (AW id, n, (s, e, r)).

Theorem tie_resources : forall m, gen_resources m = Ok (map obs_resource (resources m)).
Proof.
  intros m. unfold gen_resources, resources. cbv zeta. rewrite map_flat_map.
  apply concatR_filter_flat; intros x _ Hp.
  - destruct (e_asg x) as [id|id]; cbn [res_lookup is_some] in *; [|discriminate].
    destruct (find_res id (m_ress m)) as [r|]; [|discriminate]. reflexivity.
  - destruct (e_asg x) as [id|id]; cbn [res_lookup is_some] in *; [|reflexivity].
    destruct (find_res id (m_ress m)) as [r|]; [discriminate|reflexivity].
Qed.
Print Assumptions tie_resources.

Theorem tie_windows : forall m, gen_windows m = Ok (map obs_window (windows m)).
Proof.
  intros m. unfold gen_windows, windows. cbv zeta. rewrite map_flat_map.
  apply concatR_filter_flat; intros x _ Hp.
  - destruct (e_asg x) as [id|id]; cbn [win_lookup is_some] in *; [discriminate|].
    destruct (find_win id (m_wins m)) as [[w c]|]; [|discriminate]. reflexivity.
  - destruct (e_asg x) as [id|id]; cbn [win_lookup is_some] in *; [reflexivity|].
    destruct (find_win id (m_wins m)) as [[w c]|]; [discriminate|reflexivity].
Qed.
Print Assumptions tie_windows.

(* window_patterns(): object, name, (pattern, ratio) of every window in ascending order; the pattern is the
   model's (LookupTie.model_pattern: what Model.MemoryMap.window_patterns computes, window_patterns_as_model) *)
Lemma tie_window_patterns_nonneg : forall m,
  (forall x, In x (m_ranges m) -> 0 <= e_start x) ->
  gen_window_patterns m = Ok (window_patterns_as model_pattern m).
Proof.
  intros m Hpos. unfold gen_window_patterns. rewrite tie_windows. cbn [bind].
  unfold windows, window_patterns_as. rewrite map_flat_map.
  apply concatR_map_flat_map. intros x Hx. specialize (Hpos x Hx).
  destruct (e_asg x) as [id|id] eqn:Ea; [reflexivity|].
  destruct (find_win id (m_wins m)) as [[w c]|] eqn:Hf; [|reflexivity].
  cbn [map obs_window concatR]. unfold deref_window. cbn [win_lookup]. rewrite Hf. cbn [bind snd]. cbv zeta.
  rewrite ?py_str_repeat_single. unfold model_pattern.
  repeat break_if; rewrite ?py_format_0b_nonneg by (apply Z.shiftr_nonneg; exact Hpos); settle.
Qed.

Theorem tie_window_patterns : forall m, wf_node m ->
  gen_window_patterns m = Ok (window_patterns_as model_pattern m) /\
  map (fun t : assign * option name * (list Z * Z) => (asg_id (fst (fst t)), fst (snd t), snd (snd t)))
      (window_patterns_as model_pattern m) = window_patterns m.
Proof.
  intros m Hwf. split; [|apply window_patterns_as_model].
  apply tie_window_patterns_nonneg. apply wf_starts_nonneg. exact Hwf.
Qed.
Print Assumptions tie_window_patterns.

(* the same list with the pattern spelled as C07's decoder model (Lib/Pattern.v) and as C06's (Lib/CsrPattern.v)
   spell it: what the generated window_patterns yields is, character by character, the Case pattern those models
   match addresses against *)
Theorem tie_window_patterns_c07 : forall m, wf_node m ->
  gen_window_patterns m =
  Ok (window_patterns_as (fun aw aw_w start => map code_pchar (Pattern.window_pattern aw aw_w start)) m).
Proof.
  intros m Hwf. rewrite (proj1 (tie_window_patterns m Hwf)). f_equal.
  apply window_patterns_as_ext. intros a b c. apply model_pattern_c07.
Qed.
Print Assumptions tie_window_patterns_c07.

Theorem tie_window_patterns_c06 : forall m, wf_node m ->
  gen_window_patterns m =
  Ok (window_patterns_as (fun aw aw_w start => map code_obool (CsrPattern.window_pattern aw aw_w start)) m).
Proof.
  intros m Hwf. rewrite (proj1 (tie_window_patterns m Hwf)). f_equal.
  apply window_patterns_as_ext. intros a b c. apply model_pattern_c06.
Qed.
Print Assumptions tie_window_patterns_c06.

(* ------------------------------------------------------------------ all_resources *)

Theorem tie_all_resources : forall m, all_resources m = gen_all_resources_step all_resources m.
Proof.
  intros m. rewrite all_resources_eq. unfold gen_all_resources_step. cbv zeta.
  apply concatR_map_ext. intros x _. unfold per_entry.
  destruct (e_asg x) as [id|id]; cbn [res_lookup win_lookup asg_id].
  - destruct (find_res id (m_ress m)) as [r|]; [|reflexivity].
    rewrite ?tie_resource_info. reflexivity.
  - destruct (find_win id (m_wins m)) as [[w c]|]; [|reflexivity].
    cbn [fst snd]. destruct (all_resources c) as [l|e]; cbn [bind]; [|reflexivity].
    symmetry. apply concatR_map_yield. intros i _. rewrite ?tie_translate. reflexivity.
Qed.
Print Assumptions tie_all_resources.

(* the regenerated step calls `rec` only on the children held in m_wins *)
Lemma all_resources_step_ext f g m :
  (forall wc, In wc (m_wins m) -> f (snd wc) = g (snd wc)) ->
  gen_all_resources_step f m = gen_all_resources_step g m.
Proof.
  intros H. unfold gen_all_resources_step. cbv zeta. apply concatR_map_ext. intros x _.
  destruct (res_lookup (m_ress m) (e_asg x)); [reflexivity|].
  destruct (win_lookup (m_wins m) (e_asg x)) as [wc|] eqn:E; [|reflexivity].
  rewrite (H wc (win_lookup_in _ _ _ E)). reflexivity.
Qed.

Theorem all_resources_unique : forall f,
  (forall m, f m = gen_all_resources_step f m) -> forall m, f m = all_resources m.
Proof.
  intros f Hf m. induction m as [aw dw al ranges ress wins names next frozen IH] using mmap_ind'.
  rewrite Hf, tie_all_resources. apply all_resources_step_ext.
  intros wc Hin. cbn [m_wins] in Hin. rewrite Forall_forall in IH. exact (IH wc Hin).
Qed.
Print Assumptions all_resources_unique.

(* ------------------------------------------------------------------ find_resource *)

Theorem tie_find_resource : forall m a,
  find_resource_obj m a = gen_find_resource_step find_resource_obj m a.
Proof.
  intros m a. unfold gen_find_resource_step. cbv zeta. destruct a as [id|id]; cbn [res_lookup asg_id].
  - cbn [find_resource_obj]. rewrite find_resource_eq.
    destruct (find_res id (m_ress m)) as [r|]; [rewrite ?tie_resource_info; reflexivity|].
    generalize (m_wins m). intros wins. induction wins as [|[w c] wins IH]; [reflexivity|].
    cbn [find_in_wins fst snd find_resource_obj].
    destruct (find_resource c id) as [i|[]]; cbn [bind]; rewrite ?tie_translate;
      cbn [range_of_win p_start p_step]; try reflexivity; try exact IH.
    (* a KeyError out of _translate would be swallowed by the code and propagated by the model: there is none *)
    all: destruct (translate i (m_dw c) (w_name w) (w_start w) (w_step w)) as [i'|[]] eqn:Et; try reflexivity.
    all: exfalso; exact (translate_not_keyerror _ _ _ _ _ Et).
  - cbn [find_resource_obj]. generalize (m_wins m). intros wins.
    induction wins as [|[w c] wins IH]; [reflexivity|]. cbn [fst snd find_resource_obj bind]. exact IH.
Qed.
Print Assumptions tie_find_resource.

Lemma find_resource_step_ext f g m a :
  (forall wc, In wc (m_wins m) -> f (snd wc) a = g (snd wc) a) ->
  gen_find_resource_step f m a = gen_find_resource_step g m a.
Proof.
  unfold gen_find_resource_step. cbv zeta.
  destruct (res_lookup (m_ress m) a); [reflexivity|].
  generalize (m_wins m). intros wins H. induction wins as [|wc wins IH]; [reflexivity|].
  cbn [fst snd]. rewrite (H wc (or_introl eq_refl)).
  assert (IH' := IH (fun wc' Hin => H wc' (or_intror Hin))).
  destruct (g (snd wc) a) as [i|[]]; cbn [bind]; try reflexivity; try exact IH'.
  all: match goal with |- context [gen_translate ?a ?b ?c ?d] => destruct (gen_translate a b c d) as [?|[]] end;
    try reflexivity; exact IH'.
Qed.

Theorem find_resource_unique : forall f,
  (forall m a, f m a = gen_find_resource_step f m a) -> forall m a, f m a = find_resource_obj m a.
Proof.
  intros f Hf m. induction m as [aw dw al ranges ress wins names next frozen IH] using mmap_ind'.
  intros a. rewrite Hf, tie_find_resource. apply find_resource_step_ext.
  intros wc Hin. cbn [m_wins] in Hin. rewrite Forall_forall in IH. exact (IH wc Hin a).
Qed.
Print Assumptions find_resource_unique.

(* for resource objects this is the model's find_resource itself *)
Corollary tie_find_resource_id : forall m id,
  find_resource m id = gen_find_resource_step find_resource_obj m (AR id).
Proof. intros m id. exact (tie_find_resource m (AR id)). Qed.
Print Assumptions tie_find_resource_id.

(* ------------------------------------------------------------------ decode_address *)

Lemma tie_decode_address_found : forall m a, entries_found m ->
  decode_address_res m a = gen_decode_address_step decode_address_res m a.
Proof.
  intros m a Hf. unfold decode_address_res at 1. rewrite decode_address_eq.
  unfold gen_decode_address_step. cbv zeta.
  destruct (rm_get (m_ranges m) a) as [x|] eqn:Eg; cbn [option_map]; [|reflexivity].
  specialize (Hf x (rm_get_in _ _ _ Eg)).
  destruct (e_asg x) as [id|id]; cbn [res_lookup win_lookup asg_id].
  - destruct Hf as [r ->]. reflexivity.
  - destruct Hf as [[w c] ->]. reflexivity.
Qed.

Theorem tie_decode_address : forall m a, wf_node m ->
  decode_address_res m a = gen_decode_address_step decode_address_res m a.
Proof. intros m a Hwf. apply tie_decode_address_found. apply wf_entries_found. exact Hwf. Qed.
Print Assumptions tie_decode_address.

Lemma decode_address_step_ext f g m a :
  (forall wc, In wc (m_wins m) -> forall a', f (snd wc) a' = g (snd wc) a') ->
  gen_decode_address_step f m a = gen_decode_address_step g m a.
Proof.
  intros H. unfold gen_decode_address_step. cbv zeta.
  destruct (option_map e_asg (rm_get (m_ranges m) a)) as [o|]; [|reflexivity].
  destruct (res_lookup (m_ress m) o); [reflexivity|].
  destruct (win_lookup (m_wins m) o) as [wc|] eqn:E; [|reflexivity].
  rewrite (H wc (win_lookup_in _ _ _ E)). reflexivity.
Qed.

Theorem decode_address_unique : forall f,
  (forall m a, wf_tree m -> f m a = gen_decode_address_step f m a) ->
  forall m a, wf_tree m -> f m a = Ok (decode_address m a).
Proof.
  intros f Hf m. induction m as [aw dw al ranges ress wins names next frozen IH] using mmap_ind'.
  intros a Hwf. rewrite (Hf _ _ Hwf). change (Ok (decode_address ?m ?a)) with (decode_address_res m a).
  rewrite (tie_decode_address _ a (wf_tree_node _ Hwf)). apply decode_address_step_ext.
  intros [wn c] Hin a'. cbn [m_wins] in Hin. rewrite Forall_forall in IH.
  apply (IH (wn, c) Hin a'). exact (wf_tree_child _ wn c Hwf Hin).
Qed.
Print Assumptions decode_address_unique.
