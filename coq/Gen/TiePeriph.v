(* Tie lemmas for the constructors regenerated from /repo's source by harness/translate11.py (PeriphGen.v,
   rewritten on every run): WishboneSRAM.__init__ against Model/Sram.v, WishboneCSRBridge.__init__ against
   Model/WbCsrBridge.v, gpio.Peripheral.__init__ and its register classes against Model/Gpio.v, the action classes
   of csr/action.py against Model/Actions.v.

   Every generated constructor is a function of a `world` W (Lib/PyVal.v): the semantics of the classes that are
   NOT translated.  Part 1 and the head of Parts 2-5 write those semantics down - each a transcription of the few
   checks the foreign constructor / setter makes, with its source location (this is the trusted reading of the
   foreign classes; the correspondence engines test the same behaviour on the real objects) - and each Part
   instantiates W with them, runs the generated constructor and compares
     (a) its result / exception with the model's constructor function for ALL argument values (same refusal, same
         exception class, same order of checks: the first failing one decides), and
     (b) what the recorded trace of foreign calls says was built (the published geometry, the memory map, the
         registers, the members) with the model's record.
   The statements look the trace up by WHAT was called (`call_of`, `calls_on`, `last_set`, `port_signature`), never
   by position, so that reordering independent statements of the source does not break them.

   Where the model does not cover something the code does, the statement says so instead of weakening silently:
   - Model/WbCsrBridge.v assumes its argument is a csr.Interface: tie_wbcsr_ctor is stated for such an object
     (flipped or not) and tie_wbcsr_not_interface covers every other object (TypeError before anything else);
   - Model/Actions.v has no constructor function: tie_action_ctor states what each class builds in terms of the
     model's `kind`, `has_storage` and `init_state`; the refusals (tie_action_range_rule, tie_action_bad_init,
     tie_action_bad_shape) are statements about the code and the specified FieldAction / Signal only;
   - Model/Sram.v omits the wishbone.Interface.memory_map setter's checks and add_resource's bound: the world
     makes them, and tie_sram_ctor shows they never fire.

   Proof method: `norm` (one `lazy` call with an explicit unfolding list) evaluates the generated constructor on
   arguments of known constructor shape down to its decision tree over comparisons of the symbolic integers
   (`Branch`, Lib/PyVal.v); the tree and the model's if-then-else are then split atom by atom.  Nothing depends on
   the names of generated variables. *)
From Coq Require Import String ZArith List Bool Lia ZifyBool.
From Soc Require Import Lib.Bits Lib.Res Lib.PyVal.
From Soc Require Model.Sram Proofs.Sram Model.WbCsrBridge Model.Actions Model.Mux Model.Gpio.
From SocGen Require Import PeriphGen.
Import ListNotations.
Open Scope Z_scope.

(* ================================================================ Part 0: helpers *)

Definition is_glob (f : pv) (name : string) : bool :=
  match f with YGlobal s => String.eqb s name | _ => false end.

(* f = <receiver>.<name> *)
Definition meth_recv (f : pv) (name : string) : option pv :=
  match f with YAttr o m => if String.eqb m name then Some o else None | _ => None end.

(* f = super(<class>, self).__init__ : the class statement it was written in, and self *)
Definition super_init (f : pv) : option (pv * pv) :=
  match f with
  | YAttr (YCon s [cls; slf] []) m =>
      if String.eqb s "super" then if String.eqb m "__init__" then Some (cls, slf) else None else None
  | _ => None
  end.

Definition obj_is (o : pv) (cls : string) : bool :=
  match o with YObj c _ => String.eqb c cls | _ => false end.

(* plain attribute semantics: the latest store, else the attribute stays symbolic *)
Definition get_plain (t : trace) (o : pv) (a : string) : comp pv :=
  match last_set t o a with Some v => Ret v | None => Ret (YAttr o a) end.

Definition widths : pv := YTuple [YInt 8; YInt 16; YInt 32; YInt 64].

Definition kw_or_none (k : string) (kw : list (string * pv)) : pv :=
  match kw_get k kw with Some v => v | None => YNone end.

(* every method call made on the object o, oldest first: (method, args, kwargs) *)
Fixpoint calls_on (t : trace) (o : pv) : list (string * list pv * list (string * pv)) :=
  match t with
  | [] => []
  | EvCall (YAttr o' m) args kw _ :: t' =>
      if ref_eqb o' o then calls_on t' o ++ [(m, args, kw)] else calls_on t' o
  | _ :: t' => calls_on t' o
  end.

(* `not isinstance(v, int) or v <op> bound` *)
Definition not_int_or (v : pv) (op : cmp) (bound : Z) : comp bool :=
  if py_is_int v then py_cmp op v (YInt bound) else Ret true.

Definition getZ (o : option pv) : comp Z := match o with Some (YInt z) => Ret z | _ => Raise OtherError end.
Definition getB (o : option pv) : comp bool := match o with Some (YBool b) => Ret b | _ => Raise OtherError end.

Fixpoint ints (l : list pv) : list Z :=
  match l with YInt z :: l' => z :: ints l' | _ => [] end.

Lemma ints_map l : ints (map YInt l) = l.
Proof. induction l as [|z l IH]; cbn [map ints]; [reflexivity | rewrite IH; reflexivity]. Qed.

(* a pure result as a branch point of the decision tree *)
Definition is_ok {A} (r : res A) : bool := match r with Ok _ => true | Err _ => false end.
Definition err_of {A} (r : res A) : exn := match r with Ok _ => OtherError | Err e => e end.

(* ================================================================ Part 1: the foreign classes, as specified *)

(* wishbone.Signature(addr_width=, data_width=, granularity=None)        amaranth_soc/wishbone/bus.py:96-108 *)
Definition spec_wb_signature (t : trace) (kw : list (string * pv)) : comp pv :=
  match kw_get "addr_width" kw, kw_get "data_width" kw with
  | Some aw, Some dw =>
      let g := if py_is_none (kw_or_none "granularity" kw) then dw else kw_or_none "granularity" kw in
      let* c := not_int_or aw CLt 0 in
      Branch c (Raise TypeError) (
      let* c := py_in dw widths in
      Branch c (
        let* c := py_in g widths in
        Branch c (
          let* c := py_cmp CGt g dw in
          Branch c (Raise ValueError) (Ret (YObj "wishbone.Signature" (tlen t))))
        (Raise ValueError))
      (Raise ValueError))
  | _, _ => Raise TypeError
  end.

(* MemoryMap(addr_width=, data_width=)                                   amaranth_soc/memory.py:213-219 *)
Definition spec_memory_map (t : trace) (kw : list (string * pv)) : comp pv :=
  match kw_get "addr_width" kw, kw_get "data_width" kw with
  | Some aw, Some dw =>
      let* c := not_int_or aw CLe 0 in
      Branch c (Raise ValueError) (
      let* c := not_int_or dw CLe 0 in
      Branch c (Raise ValueError) (Ret (YObj "MemoryMap" (tlen t))))
  | _, _ => Raise TypeError
  end.

(* the keyword arguments a wishbone.Signature / MemoryMap object was created with *)
Definition kw_of (t : trace) (o : pv) : list (string * pv) :=
  match call_of t o with Some (_, _, kw) => kw | None => [] end.

(* wishbone.Interface.memory_map = mm                                    amaranth_soc/wishbone/bus.py:241-255
   for the interface created from Signature object `sg` *)
Definition spec_wb_set_memory_map (t : trace) (sg mm : pv) : comp unit :=
  if negb (obj_is mm "MemoryMap") then Raise TypeError else
  let skw := kw_of t sg in let mkw := kw_of t mm in
  let dw := kw_or_none "data_width" skw in
  let g := if py_is_none (kw_or_none "granularity" skw) then dw else kw_or_none "granularity" skw in
  let* e := py_eq (kw_or_none "data_width" mkw) g in
  Branch e (
    let* q := py_arith AFloorDiv dw g in
    let* gbits := py_exact_log2 q in
    let* eff := py_arith AAdd (kw_or_none "addr_width" skw) gbits in
    let* m := py_max (YInt 1) eff in
    let* e := py_eq (kw_or_none "addr_width" mkw) m in
    Branch e (Ret tt) (Raise ValueError))
  (Raise ValueError).

(* the Signature object behind `self.<port>` of a wiring.Component: the member handed to super().__init__ *)
Fixpoint port_signature (t : trace) (slf : pv) (port : string) : option pv :=
  match t with
  | [] => None
  | EvCall f [YDict members] _ _ :: t' =>
      match super_init f with
      | Some (_, s) =>
          if ref_eqb s slf then
            match dict_str port members with
            | Some (YCon _ [sg] []) => Some sg            (* In(sg) / Out(sg) *)
            | _ => None
            end
          else port_signature t' slf port
      | None => port_signature t' slf port
      end
  | _ :: t' => port_signature t' slf port
  end.

(* ---------------------------------------------------------------- evaluation tactics

   `norm` evaluates a generated constructor applied to a concrete world and to arguments whose constructors are
   known down to the decision tree over the comparisons of its symbolic integers (Lib/PyVal.v `Branch`), leaving
   integer arithmetic and the model's own functions folded.  Then the tree and the model's if-then-else are
   split atom by atom (an atom already decided on this path is rewritten, not split again). *)

Ltac atom_of c k :=
  lazymatch c with
  | (if ?a then _ else _) => atom_of a k
  | negb ?a => atom_of a k
  | (?a && _) => atom_of a k
  | (?a || _) => atom_of a k
  | _ => k c
  end.
(* the model's comparisons brought to the <? / =? atoms the generated side uses *)
Ltac canon_atom a :=
  lazymatch a with
  | (?x >? ?y) => rewrite (Z.gtb_ltb x y)
  | (?x >=? ?y) => rewrite (Z.geb_leb x y), (Z.leb_antisym x y)
  | (?x <=? ?y) => rewrite (Z.leb_antisym y x)
  | (?x =? ?x) => rewrite (Z.eqb_refl x)
  end.
Ltac split_atom a :=
  first [ canon_atom a
        | match goal with H : a = _ |- _ => rewrite H end
        | destruct a eqn:? ].
Ltac split1 := match goal with |- context [if ?c then _ else _] => atom_of c split_atom end.
Ltac split_all := repeat (split1; cbn [negb andb orb]).

Ltac saturate :=
  repeat match goal with
  | H : ?P -> ?Q, HP : ?P |- _ => specialize (H HP)
  | H : _ /\ _ |- _ => destruct H
  end.

Lemma run_bind {A B} (m : comp A) (k : A -> comp B) :
  run_comp (cbind m k) = match run_comp m with Ok a => run_comp (k a) | Err e => Err e end.
Proof.
  induction m as [a|e|c t IHt f IHf]; cbn [cbind run_comp]; try reflexivity.
  destruct c; [apply IHt | apply IHf].
Qed.

(* powers of two, as exact_log2 sees them *)
Lemma pow2_bitlen n : 0 <= n -> bit_length (2 ^ n - 1) = n.
Proof.
  intros Hn. unfold bit_length. destruct (2 ^ n - 1 <=? 0) eqn:E.
  - assert (n = 0 \/ 0 < n) as [->|H] by lia; [reflexivity|].
    pose proof (Z.pow_gt_1 2 n ltac:(lia)). lia.
  - assert (0 < n). { destruct (Z.eq_dec n 0) as [->|]; [cbn in E; lia | lia]. }
    rewrite (Z.log2_unique (2 ^ n - 1) (n - 1)); [lia | lia |].
    replace (Z.succ (n - 1)) with n by lia.
    pose proof (Z.pow_succ_r 2 (n - 1) ltac:(lia)). replace (Z.succ (n - 1)) with n in * by lia. lia.
Qed.

Lemma pow2_land n : 0 <= n -> Z.land (2 ^ n) (2 ^ n - 1) = 0.
Proof.
  intros Hn. replace (2 ^ n - 1) with (Z.ones n) by (rewrite Z.ones_equiv; lia).
  rewrite Z.land_ones by lia. apply Z.mod_same. pose proof (pow2_pos n Hn). lia.
Qed.

(* ================================================================ Part 2: WishboneSRAM *)

Module SramTie.
Module S := Soc.Model.Sram.

(* amaranth.lib.memory.MemoryData(depth=, shape=, init=)    amaranth/hdl/_mem.py:68-85 (Init.__init__):
   Shape.cast(shape); depth must be a non-negative int (TypeError); more init values than rows: ValueError.
   The shape is unsigned(w): unsigned() itself refuses a non-int width with TypeError (amaranth/hdl/_ast.py). *)
Definition spec_memory_data (t : trace) (kw : list (string * pv)) : comp pv :=
  match kw_get "depth" kw, kw_get "shape" kw, kw_get "init" kw with
  | Some depth, Some (YCon sh [w] []), Some init =>
      if negb (String.eqb sh "unsigned") then Raise OtherError else
      let* c := not_int_or w CLt 0 in
      Branch c (Raise TypeError) (
      let* c := not_int_or depth CLt 0 in
      Branch c (Raise TypeError) (
      let* items := py_iter init in
      let* c := py_cmp CGt (YInt (Z.of_nat (List.length items))) depth in
      Branch c (Raise ValueError) (Ret (YObj "MemoryData" (tlen t)))))
  | _, _, _ => Raise OtherError
  end.

(* MemoryMap.add_resource(res, name=, size=) on a fresh map: the resource is placed at 0; it must fit
   (memory.py:276-292, the general case is C02's).  Result (start, end). *)
Definition spec_add_resource (t : trace) (mm : pv) (kw : list (string * pv)) : comp pv :=
  match kw_get "size" kw, kw_get "addr_width" (kw_of t mm) with
  | Some (YInt size), Some (YInt aw) =>
      Branch (0 <? size) (Branch (2 ^ aw <? size) (Raise ValueError) (Ret (YTuple [YInt 0; YInt size])))
             (Raise ValueError)
  | _, _ => Raise OtherError
  end.

Definition sram_call (t : trace) (f : pv) (args : list pv) (kw : list (string * pv)) : comp pv :=
  if is_glob f "MemoryData" then spec_memory_data t kw
  else if is_glob f "Memory" then Ret (YObj "Memory" (tlen t))
  else if is_glob f "Signature" then spec_wb_signature t kw
  else if is_glob f "MemoryMap" then spec_memory_map t kw
  else match super_init f with
  | Some _ => Ret YNone                                  (* wiring.Component.__init__({"wb_bus": In(sig)}) *)
  | None =>
  match meth_recv f "read_port", meth_recv f "write_port", meth_recv f "add_resource", meth_recv f "freeze" with
  | Some m, _, _, _ => Ret (YObj "ReadPort" (tlen t))
  | _, Some m, _, _ => Ret (YObj "WritePort" (tlen t))
  | _, _, Some mm, _ => spec_add_resource t mm kw
  | _, _, _, Some mm => Ret YNone
  | _, _, _, _ => Raise OtherError
  end end.

(* Memory(data).depth = data.depth = the depth= keyword; everything else is a plain attribute *)
Definition sram_get (t : trace) (o : pv) (a : string) : comp pv :=
  if (if obj_is o "Memory" then String.eqb a "depth" else false) then
    match call_of t o with
    | Some (_, [md], _) => match kw_get "depth" (kw_of t md) with Some d => Ret d | None => Raise OtherError end
    | _ => Raise OtherError
    end
  else get_plain t o a.

Definition sram_set (t : trace) (o : pv) (a : string) (v : pv) : comp unit :=
  match o with
  | YAttr slf port =>
      if String.eqb a "memory_map" then
        match port_signature t slf port with
        | Some sg => spec_wb_set_memory_map t sg v
        | None => Raise OtherError
        end
      else Ret tt
  | _ => Ret tt
  end.

Definition sramW : world :=
  {| w_call := sram_call; w_get := sram_get; w_set := sram_set;
     w_isinstance := fun _ _ _ => Raise OtherError |}.

(* ---- arguments *)
Definition inj (a : S.pyarg) : pv :=
  match a with S.VInt z => YInt z | S.VFloat z => YFloat z | S.VNone => YNone | S.VBad => YBad end.

Definition slf : pv := YObj "WishboneSRAM" 0.
Definition tr0 : trace := [EvNew "WishboneSRAM"].

Definition run (size dw gran : S.pyarg) (wr : bool) (init : list Z) : comp (pv * trace) :=
  gen_sram_WishboneSRAM_init sramW tr0 slf (inj size) (inj dw) (inj gran) (YBool wr) (YList (map YInt init)).

(* ---- what the trace says was built: the geometry published by the constructed object, read off the recorded
   foreign calls (by what was called, not by position) *)
Definition view (t : trace) : comp (S.geom * list Z) :=
  let* size := getZ (last_set t slf "_size") in
  let* wr := getB (last_set t slf "_writable") in
  match last_set t slf "_mem_data", port_signature t slf "wb_bus",
        last_set t (YAttr slf "wb_bus") "memory_map" with
  | Some md, Some sg, Some mm =>
      let* depth := getZ (kw_get "depth" (kw_of t md)) in
      let* items := py_iter (kw_or_none "init" (kw_of t md)) in
      let* dw := getZ (kw_get "data_width" (kw_of t sg)) in
      let* g := getZ (kw_get "granularity" (kw_of t sg)) in
      let* aw := getZ (kw_get "addr_width" (kw_of t sg)) in
      let* mmaw := getZ (kw_get "addr_width" (kw_of t mm)) in
      Ret ({| S.g_size := size; S.g_dw := dw; S.g_gran := g; S.g_wr := wr; S.g_depth := depth; S.g_aw := aw;
              S.g_mmaw := mmaw |},
           S.init_rows dw depth (ints items))
  | _, _, _ => Raise OtherError
  end.

Definition conv_exn (e : S.exn) : Res.exn :=
  match e with S.TypeError => Res.TypeError | S.ValueError => Res.ValueError end.
Definition conv {A} (r : S.res A) : Res.res A :=
  match r with S.Ok a => Res.Ok a | S.Err e => Res.Err (conv_exn e) end.

(* the memory map handed to wb_bus: the keyword arguments it was created with, and every method call made on it,
   oldest first; the object stored in self._mem is shown as the global name "self._mem" *)
Definition mark (mem a : pv) : pv := if ref_eqb a mem then YGlobal "self._mem" else a.
Fixpoint mark_args (mem : pv) (l : list pv) : list pv :=
  match l with [] => [] | a :: l' => mark mem a :: mark_args mem l' end.
Fixpoint mark_calls (mem : pv) (l : list (string * list pv * list (string * pv))) :=
  match l with [] => [] | (m, args, kw) :: l' => (m, mark_args mem args, kw) :: mark_calls mem l' end.
Definition mapdesc : Type := (list (string * pv) * list (string * list pv * list (string * pv)))%type.
Definition view_map (t : trace) : comp mapdesc :=
  match last_set t (YAttr slf "wb_bus") "memory_map", last_set t slf "_mem" with
  | Some mm, Some mem =>
      Ret (kw_of t mm, mark_calls mem (calls_on t mm))
  | _, _ => Raise OtherError
  end.
(* ... which must be: MemoryMap(addr_width=log2(size), data_width=granularity), one resource of `size` granules
   named ("mem",), then freeze() *)
Definition expected_map (g : S.geom) : mapdesc :=
  ([("addr_width"%string, YInt (S.g_mmaw g)); ("data_width"%string, YInt (S.g_gran g))],
   [("add_resource"%string, [YGlobal "self._mem"],
     [("name"%string, YTuple [YStr "mem"]); ("size"%string, YInt (S.g_size g))]);
    ("freeze"%string, [], [])]).

Definition expected (r : S.res (S.geom * list Z)) : res (S.geom * list Z * mapdesc) :=
  match r with
  | S.Ok (g, rows) => Ok (g, rows, expected_map g)
  | S.Err e => Err (conv_exn e)
  end.

Ltac norm := lazy beta iota zeta delta [
  cbind run_comp fcall fset fnew tlen w_call w_get w_set w_isinstance
  ref_eqb kw_get last_set call_of calls_of num mknum py_is_none py_is_int py_is_str py_is_bool py_is_range py_is_dict
  py_is_list py_is_tuple not_numbers py_arith py_neg py_invert py_cmp py_eq_opt py_eq py_truth index_of py_range
  nums in_list py_in py_len py_iter dict_lookup dict_str py_getitem py_max py_min py_exact_log2 py_ceil_log2
  String.eqb Ascii.eqb Bool.eqb Nat.eqb negb andb orb fst snd List.app
  is_glob meth_recv super_init obj_is get_plain widths kw_or_none calls_on kw_of port_signature not_int_or getZ getB
  spec_wb_signature spec_memory_map spec_wb_set_memory_map
  spec_memory_data spec_add_resource sram_call sram_get sram_set sramW inj slf tr0 run view conv_exn
  mark mark_args mark_calls view_map expected expected_map
  gen_sram_WishboneSRAM_init gen_sram_WishboneSRAM_class gen_sram_WishboneSRAM_init_get gen_sram_WishboneSRAM_init_set
  S.construct S.num S.is_float is_pow2 S.g_mmaw S.g_gran S.g_size ].

Lemma mem_widths z : mem_z z [8; 16; 32; 64] = S.width_ok z.
Proof. unfold S.width_ok. cbn [mem_z]. repeat (destruct (_ =? _); cbn [orb]; try reflexivity). Qed.

(* what the checks that passed so far imply for the checks made by the foreign constructors (none can fire
   except those the model lists), as the boolean atoms the decision tree tests *)
Lemma sram_atoms s d g :
  (0 <? s) = true -> (Z.land s (s - 1) =? 0) = true -> S.width_ok d = true -> S.width_ok g = true ->
  (s * g <? d) = false ->
  (d =? 0) = false /\ (d <? 0) = false /\ (g =? 0) = false /\ (0 <? g) = true /\
  (s * g / d <? 0) = false /\ (0 <? s * g / d) = true /\ (Z.land (s * g / d) (s * g / d - 1) =? 0) = true /\
  bit_length (s * g / d - 1) = Z.log2 (s * g / d) /\ bit_length (s - 1) = Z.log2 s /\
  (Z.log2 (s * g / d) <? 0) = false /\ (2 ^ Z.log2 s <? s) = false /\
  ((d <? g) = false ->
     (0 <? d / g) = true /\ (Z.land (d / g) (d / g - 1) =? 0) = true /\
     ((0 <? Z.log2 s) = true ->
      (Z.log2 s =? Z.max 1 (Z.log2 (s * g / d) + bit_length (d / g - 1))) = true)).
Proof.
  intros H1 H2 Hd Hg H5.
  assert (Hs : is_pow2 s = true) by (unfold is_pow2; rewrite H1, H2; reflexivity).
  pose proof (Proofs.Sram.is_pow2_log2 s Hs) as Es.
  destruct (Proofs.Sram.width_ok_pow d Hd) as (b & Hb & Eb).
  destruct (Proofs.Sram.width_ok_pow g Hg) as (a & Ha & Ea).
  set (k := Z.log2 s) in *.
  assert (Hk : 0 <= k) by (unfold k; apply Z.log2_nonneg).
  assert (Hba : b <= k + a).
  { apply (Z.pow_le_mono_r_iff 2); [lia | lia |]. rewrite Z.pow_add_r by lia. rewrite <- Es, <- Ea, <- Eb. lia. }
  assert (Ed : s * g / d = 2 ^ (k + a - b)).
  { rewrite Es, Ea, Eb. rewrite <- Z.pow_add_r by lia. rewrite <- Z.pow_sub_r by lia. reflexivity. }
  assert (P8 : 8 = 2 ^ 3) by reflexivity.
  assert (8 <= d) by (rewrite Eb, P8; apply Z.pow_le_mono_r; lia).
  assert (8 <= g) by (rewrite Ea, P8; apply Z.pow_le_mono_r; lia).
  rewrite Ed. rewrite pow2_land, pow2_bitlen, Z.log2_pow2 by lia.
  pose proof (pow2_pos (k + a - b) ltac:(lia)).
  assert (Hbk : bit_length (s - 1) = k) by (rewrite Es; apply pow2_bitlen; lia).
  assert (Hab : (d <? g) = false -> a <= b).
  { intros Hdg. apply (Z.pow_le_mono_r_iff 2); [lia | lia |]. rewrite <- Ea, <- Eb. lia. }
  assert (Eq : (d <? g) = false -> d / g = 2 ^ (b - a)).
  { intros Hdg. specialize (Hab Hdg). rewrite Ea, Eb, <- Z.pow_sub_r by lia. reflexivity. }
  repeat match goal with |- _ /\ _ => split end; try lia.
  intros Hdg. specialize (Hab Hdg). rewrite (Eq Hdg), pow2_land, pow2_bitlen by lia.
  pose proof (pow2_pos (b - a) ltac:(lia)). repeat split; lia.
Qed.

Ltac learn :=
  (* (granularity * size written the other way round) *)
  try match goal with
      | H5 : (?g * ?s <? ?d) = false, H1 : (0 <? ?s) = true, H3 : S.width_ok ?g = true |- _ =>
          lazymatch g with s => fail | _ => rewrite (Z.mul_comm g s) in * end
      end;
  match goal with
  | H5 : (?s * ?g <? ?d) = false |- _ =>
      lazymatch goal with
      | _ : bit_length (s - 1) = Z.log2 s |- _ => fail
      | H1 : (0 <? s) = true, H2 : (Z.land s (s - 1) =? 0) = true |- _ =>
          lazymatch goal with
          | H3 : S.width_ok d = true |- _ =>
              lazymatch goal with
              | H4 : S.width_ok g = true |- _ =>
                  pose proof (sram_atoms s d g H1 H2 H3 H4 H5);
                  lazymatch g with s => idtac | _ => rewrite ?(Z.mul_comm g s) end
              end
          end
      end
  end; saturate;
  repeat match goal with H : bit_length ?x = Z.log2 _ |- _ => rewrite !H end.
Ltac tidy :=
  try match goal with |- context [mem_z _ _] => rewrite !mem_widths end;
  try match goal with |- context [List.length (map _ _)] => rewrite !map_length end;
  try match goal with |- context [ints (map _ _)] => rewrite !ints_map end.
Ltac split_sram := repeat (try learn; saturate; split1; cbn [negb andb orb]).
Ltac leaf :=
  first [ reflexivity
        | repeat match goal with
                 | H : S.width_ok ?d = true |- _ =>
                     lazymatch goal with
                     | _ : d = 8 \/ _ |- _ => fail
                     | _ => pose proof (Proofs.Sram.width_ok_cases d H)
                     end
                 end; exfalso; lia ].

(* deciding every test of a decision tree from the hypotheses (no case split) *)
Ltac decide_atom a :=
  first [ canon_atom a
        | match goal with H : a = _ |- _ => rewrite H end
        | let H := fresh "D" in
          first [ assert (H : a = true) by lia | assert (H : a = false) by lia ]; rewrite H ].
Ltac decide_all :=
  repeat (match goal with |- context [if ?c then _ else _] => atom_of c decide_atom end; cbn [negb andb orb]).

Definition unit_of (r : S.res (S.geom * list Z)) : res unit :=
  match r with S.Ok _ => Ok tt | S.Err e => Err (conv_exn e) end.

(* (1) control: same refusal, same exception class, same order of checks, for ALL argument values *)
Lemma sram_control size dw gran wr init :
  run_comp (let* _ := run size dw gran wr init in Ret tt) = unit_of (S.construct size dw gran wr init).
Proof.
  destruct size as [s|s| |], dw as [d|d| |], gran as [g|g| |]; norm; lazy beta iota delta [unit_of];
    try reflexivity.
  all: tidy.
  all: split_sram.
  all: leaf.
Qed.

(* (2) what an accepted SRAM publishes *)
Lemma sram_accepted size dw gran wr init g rows :
  S.construct size dw gran wr init = S.Ok (g, rows) ->
  run_comp (let* '(_, t) := run size dw gran wr init in let* v := view t in let* m := view_map t in Ret (v, m))
  = Ok (g, rows, expected_map g).
Proof.
  intros C. apply Proofs.Sram.construct_inv in C.
  destruct C as (s & dd & gg & -> & -> & Hg & Hs & Hd & Hgg & H1 & H2 & H3 & H4 & -> & ->).
  unfold is_pow2 in Hs. apply andb_prop in Hs. destruct Hs as [Hs1 Hs2].
  assert (H5 : (s * gg <? dd) = false) by lia.
  pose proof (sram_atoms s dd gg Hs1 Hs2 Hd Hgg H5) as A. saturate.
  assert (Hdg : (dd <? gg) = false) by lia. assert (Hl : (0 <? Z.log2 s) = true) by lia. saturate.
  destruct wr; (destruct Hg as [-> | [-> ->]]; norm; tidy; rewrite ?(Z.mul_comm gg s), ?(Z.mul_comm dd s);
    repeat match goal with H : bit_length ?x = Z.log2 _ |- _ => rewrite !H end;
    decide_all; reflexivity).
Qed.

(* WishboneSRAM.__init__ = Model.Sram.construct, for ALL argument values (int / float equal to an int / None /
   any other non-number for size, data_width, granularity; any bool for writable; any list of ints for init):
   same refusal, same exception class, same order of checks (the first failing one decides); and on acceptance
   the published geometry, the initial rows and the memory map are the model's. *)
Theorem tie_sram_ctor : forall size dw gran wr init,
  run_comp (let* '(_, t) := run size dw gran wr init in let* v := view t in let* m := view_map t in Ret (v, m))
  = expected (S.construct size dw gran wr init).
Proof.
  intros. destruct (S.construct size dw gran wr init) as [[g rows]|e] eqn:C.
  - cbn [expected]. apply sram_accepted. exact C.
  - pose proof (sram_control size dw gran wr init) as K. rewrite C in K. cbn [unit_of expected] in *.
    rewrite run_bind in K. rewrite run_bind.
    destruct (run_comp (run size dw gran wr init)) as [[o t]|e']; [cbn in K; discriminate K | injection K as ->; reflexivity].
Qed.
Print Assumptions tie_sram_ctor.

(* the `init` property pair: the setter stores into the MemoryData object held in self._mem_data, the getter reads
   the same attribute of the same object back *)
Theorem tie_sram_init_property : forall t n v,
  let md := YObj "MemoryData" n in
  last_set t slf "_mem_data" = Some md ->
  run_comp (gen_sram_WishboneSRAM_init_set sramW t slf v) = Ok (YNone, EvSet md "init" v :: t) /\
  run_comp (gen_sram_WishboneSRAM_init_get sramW (EvSet md "init" v :: t) slf) = Ok (v, EvSet md "init" v :: t).
Proof.
  intros t n v md H. subst md.
  split.
  - unfold gen_sram_WishboneSRAM_init_set, fset. cbn. unfold get_plain. rewrite H. reflexivity.
  - unfold gen_sram_WishboneSRAM_init_get. cbn. unfold get_plain. cbn. rewrite H. cbn. unfold get_plain. cbn.
    rewrite Nat.eqb_refl. reflexivity.
Qed.
Print Assumptions tie_sram_init_property.

End SramTie.

(* ================================================================ Part 3: WishboneCSRBridge *)

Module WbCsrTie.
Module B := Soc.Model.WbCsrBridge.

(* the constructor's first argument: an object with attributes addr_width = caw, data_width = cdw and a memory
   map; `flp` says whether it is a wiring.FlippedInterface, `ifc` whether what flipped() gives back (or the object
   itself, when it is not flipped) is a csr.Interface *)
Definition bus : pv := YObj "arg:csr_bus" 0.
Definition bus_map : pv := YObj "arg:csr_bus.memory_map" 0.

Section World.
Variables (caw cdw : Z) (flp ifc : bool).

(* MemoryMap.add_window(window, name=) of the CSR bus's map into the fresh map `mm`: both have the geometry of the
   csr.Interface (its memory_map setter guarantees that, csr/bus.py), so the window is placed at [0, 2**addr_width)
   with ratio 1; any other geometry of `mm` does not fit: ValueError (memory.py add_window; the general case is
   C02's) *)
Definition spec_add_window (t : trace) (mm : pv) (args : list pv) : comp pv :=
  match args, kw_get "addr_width" (kw_of t mm), kw_get "data_width" (kw_of t mm) with
  | [w], Some (YInt aw), Some (YInt dw) =>
      if ref_eqb w bus_map then
        Branch (aw =? caw) (Branch (dw =? cdw) (Ret (YTuple [YInt 0; YInt (2 ^ aw); YInt 1])) (Raise ValueError))
               (Raise ValueError)
      else Raise OtherError
  | _, _, _ => Raise OtherError
  end.

Definition wb_call (t : trace) (f : pv) (args : list pv) (kw : list (string * pv)) : comp pv :=
  if is_glob f "flipped" then Ret (YCon "flipped" args [])
  else if is_glob f "wishbone.Signature" then spec_wb_signature t kw
  else if is_glob f "MemoryMap" then spec_memory_map t kw
  else match super_init f with
  | Some _ => Ret YNone                                  (* wiring.Component.__init__({"wb_bus": In(sig)}) *)
  | None =>
  match meth_recv f "add_window" with
  | Some mm => spec_add_window t mm args
  | None => Raise OtherError
  end end.

Definition wb_get (t : trace) (o : pv) (a : string) : comp pv :=
  if ref_eqb o bus then
    if String.eqb a "data_width" then Ret (YInt cdw)
    else if String.eqb a "addr_width" then Ret (YInt caw)
    else if String.eqb a "memory_map" then Ret bus_map
    else Raise OtherError
  else get_plain t o a.

Definition wb_set (t : trace) (o : pv) (a : string) (v : pv) : comp unit :=
  match o with
  | YAttr slf port =>
      if String.eqb a "memory_map" then
        match port_signature t slf port with
        | Some sg => spec_wb_set_memory_map t sg v
        | None => Raise OtherError
        end
      else Ret tt
  | _ => Ret tt
  end.

Definition wb_isinstance (t : trace) (x c : pv) : comp bool :=
  if is_glob c "wiring.FlippedInterface" then Ret (if ref_eqb x bus then flp else false)
  else if is_glob c "Interface" then
    Ret (if ref_eqb x bus then (if flp then false else ifc)
         else match x with
              | YCon f [y] [] => if String.eqb f "flipped" then (if ref_eqb y bus then (if flp then ifc else false) else false)
                                 else false
              | _ => false
              end)
  else Raise OtherError.

Definition wbW : world :=
  {| w_call := wb_call; w_get := wb_get; w_set := wb_set; w_isinstance := wb_isinstance |}.
End World.

Definition slf : pv := YObj "WishboneCSRBridge" 0.
Definition tr0 : trace := [EvNew "WishboneCSRBridge"].
Definition inj (d : option Z) : pv := match d with Some z => YInt z | None => YNone end.
Definition injname (o : option string) : pv := match o with Some s => YStr s | None => YNone end.

Definition run (k : B.kcfg) (flp ifc : bool) (name : pv) : comp (pv * trace) :=
  gen_wbcsr_WishboneCSRBridge_init (wbW (B.k_caw k) (B.k_cdw k) flp ifc) tr0 slf bus (inj (B.k_dw k)) name.

(* the published geometry, read off the recorded foreign calls: the wishbone.Signature behind wb_bus, the
   MemoryMap assigned to wb_bus.memory_map, and the single add_window(csr_bus.memory_map, name=name) made on it *)
Definition view (name : pv) (t : trace) : comp B.geom :=
  match port_signature t slf "wb_bus", last_set t (YAttr slf "wb_bus") "memory_map", last_set t slf "_csr_bus" with
  | Some sg, Some mm, Some cb =>
      if negb (ref_eqb cb bus) then Raise OtherError else
      let* dw := getZ (kw_get "data_width" (kw_of t sg)) in
      let* g := getZ (kw_get "granularity" (kw_of t sg)) in
      let* aw := getZ (kw_get "addr_width" (kw_of t sg)) in
      let* mmaw := getZ (kw_get "addr_width" (kw_of t mm)) in
      let* mmdw := getZ (kw_get "data_width" (kw_of t mm)) in
      match calls_on t mm with
      | [(m, [w], [(k, nm)])] =>
          if (if String.eqb m "add_window" then if ref_eqb w bus_map then String.eqb k "name" else false else false)
          then
            let* e := py_eq nm name in
            if e then
              Ret {| B.g_r := bit_length (dw / g - 1); B.g_wb_aw := aw; B.g_wb_dw := dw; B.g_gran := g;
                     B.g_mm_aw := mmaw; B.g_mm_dw := mmdw;
                     B.g_win_start := 0; B.g_win_stop := 2 ^ mmaw; B.g_win_ratio := 1 |}
            else Raise OtherError
          else Raise OtherError
      | _ => Raise OtherError
      end
  | _, _, _ => Raise OtherError
  end.

Definition conv_exn (e : B.exn) : Res.exn :=
  match e with B.TypeError => Res.TypeError | B.ValueError => Res.ValueError end.
Definition conv {A} (r : B.res A) : Res.res A :=
  match r with B.Ok a => Res.Ok a | B.Err e => Res.Err (conv_exn e) end.

Ltac norm := lazy beta iota zeta delta [
  cbind run_comp fcall fset fnew tlen w_call w_get w_set w_isinstance
  ref_eqb kw_get last_set call_of calls_of num mknum py_is_none py_is_int py_is_str py_is_bool py_is_range py_is_dict
  py_is_list py_is_tuple not_numbers py_arith py_neg py_invert py_cmp py_eq_opt py_eq py_truth index_of py_range
  nums in_list py_in py_len py_iter dict_lookup dict_str py_getitem py_max py_min py_exact_log2 py_ceil_log2
  String.eqb Ascii.eqb Bool.eqb Nat.eqb negb andb orb fst snd List.app
  is_glob meth_recv super_init obj_is get_plain widths kw_or_none calls_on kw_of port_signature not_int_or getZ getB
  spec_wb_signature spec_memory_map spec_wb_set_memory_map
  spec_add_window wb_call wb_get wb_set wb_isinstance wbW bus bus_map inj injname slf tr0 run view conv conv_exn
  gen_wbcsr_WishboneCSRBridge_init gen_wbcsr_WishboneCSRBridge_class
  B.construct B.exact_log2 B.k_caw B.k_cdw B.k_dw ].

Lemma mem_legal z : mem_z z [8; 16; 32; 64] = B.legal_w z.
Proof. unfold B.legal_w. cbn [mem_z]. repeat (destruct (_ =? _); cbn [orb]; try reflexivity). Qed.

Ltac tidy :=
  change B.bit_length with bit_length in *;
  try match goal with |- context [mem_z _ _] => rewrite !mem_legal end.
Ltac leaf :=
  first [ reflexivity
        | repeat match goal with
                 | H : B.legal_w ?d = true |- _ =>
                     lazymatch goal with
                     | _ : d = 8 \/ _ |- _ => fail
                     | _ => assert (d = 8 \/ d = 16 \/ d = 32 \/ d = 64) by (unfold B.legal_w in H; lia)
                     end
                 end; first [ exfalso; lia | do 2 f_equal; lia ] ].

(* WishboneCSRBridge.__init__ on a csr.Interface (flipped or not) = Model.WbCsrBridge.construct: same refusals in
   the same order with the same exception class, and on acceptance the same published geometry - for ALL widths
   of the CSR bus, every data_width (an int or None) and every window name. *)
Theorem tie_wbcsr_ctor : forall caw cdw dw flp name,
  run_comp (let* '(_, t) := run {| B.k_caw := caw; B.k_cdw := cdw; B.k_dw := dw |} flp true (injname name) in
            view (injname name) t)
  = conv (B.construct {| B.k_caw := caw; B.k_cdw := cdw; B.k_dw := dw |}).
Proof.
  intros. destruct flp, dw as [d|], name as [nm|]; norm; rewrite ?String.eqb_refl; tidy; split_all; leaf.
Qed.
Print Assumptions tie_wbcsr_ctor.

(* ... and an object that is not a csr.Interface is refused with TypeError before anything else happens *)
Theorem tie_wbcsr_not_interface : forall caw cdw dw flp name,
  run_comp (run {| B.k_caw := caw; B.k_cdw := cdw; B.k_dw := dw |} flp false name) = Err TypeError.
Proof. intros. destruct flp; reflexivity. Qed.
Print Assumptions tie_wbcsr_not_interface.

End WbCsrTie.

(* ================================================================ Part 4: the field actions of csr/action.py *)

Module ActTie.
Module A := Soc.Model.Actions.

(* Shape.cast(shape) for the shape-like objects handled here: (width, signed).  An int n >= 0 is unsigned(n);
   unsigned(n) / signed(n) refuse a negative (non-positive) width with TypeError; an enum class declared with
   shape= has that shape; a range has a width this file does not compute (the parameter rw); everything else is
   not shape-like: TypeError.  (FieldPort.Signature.__init__, csr/reg.py:50-53; amaranth/hdl/_ast.py Shape.cast) *)
Section World.
Variable rw : Z -> Z -> Z -> Z * bool.

Definition shape_cast1 (sh : pv) : comp (Z * bool) :=
  match sh with
  | YInt n => Branch (n <? 0) (Raise TypeError) (Ret (n, false))
  | YCon f [YInt n] [] =>
      if String.eqb f "unsigned" then Branch (n <? 0) (Raise TypeError) (Ret (n, false))
      else if String.eqb f "signed" then Branch (0 <? n) (Ret (n, true)) (Raise TypeError)
      else Raise TypeError
  | YRange a b c => Ret (rw a b c)
  | _ => Raise TypeError
  end.
Definition shape_cast (sh : pv) : comp (Z * bool) :=
  match sh with
  | YCon f [_; _; _] kw =>
      if String.eqb f "class" then
        match kw_get "shape" kw with Some s => shape_cast1 s | None => Raise TypeError end
      else Raise TypeError
  | _ => shape_cast1 sh
  end.

(* dict(members) for a dict or an iterable of (name, member) pairs *)
Fixpoint pairs (l : list pv) : option (list (pv * pv)) :=
  match l with
  | [] => Some []
  | YTuple [k; v] :: l' => match pairs l' with Some r => Some ((k, v) :: r) | None => None end
  | _ => None
  end.
Definition members_list (m : pv) : comp (list (pv * pv)) :=
  match m with
  | YDict l => Ret l
  | YTuple l | YList l => match pairs l with Some r => Ret r | None => Raise TypeError end
  | _ => Raise TypeError
  end.

Definition access_ok (a : pv) : bool :=
  match a with
  | YStr s => if String.eqb s "r" then true else if String.eqb s "w" then true else if String.eqb s "rw" then true
              else String.eqb s "nc"
  | _ => false
  end.

(* the arguments of FieldAction.__init__(self, shape, access, members=()) however they were passed *)
Definition fa_args (args : list pv) (kw : list (string * pv)) : option (pv * pv * pv) :=
  let shape := match args with s :: _ => Some s | [] => kw_get "shape" kw end in
  let access := match args with _ :: a :: _ => Some a | _ => kw_get "access" kw end in
  let members := match args with _ :: _ :: m :: _ => m
                 | _ => match kw_get "members" kw with Some m => m | None => YTuple [] end end in
  match shape, access with Some s, Some a => Some (s, a, members) | _, _ => None end.

(* csr.FieldAction.__init__                                                    amaranth_soc/csr/reg.py:203-211 *)
Definition spec_field_action (args : list pv) (kw : list (string * pv)) : comp pv :=
  match fa_args args kw with
  | Some (sh, ac, mem) =>
      let* ml := members_list mem in
      match dict_str "port" ml with
      | Some _ => Raise ValueError
      | None => let* _ := shape_cast sh in if access_ok ac then Ret YNone else Raise ValueError
      end
  | None => Raise TypeError
  end.

(* Signal(shape, init=0): the shape must be shape-like, the initial value of a plain shape an int *)
Definition spec_signal (t : trace) (args : list pv) (kw : list (string * pv)) : comp pv :=
  match args with
  | [sh] =>
      let* _ := shape_cast sh in
      match kw_get "init" kw with
      | None | Some (YInt _) | Some (YBool _) => Ret (YObj "Signal" (tlen t))
      | Some _ => Raise TypeError
      end
  | _ => Raise OtherError
  end.

Definition act_call (t : trace) (f : pv) (args : list pv) (kw : list (string * pv)) : comp pv :=
  if is_glob f "Signal" then spec_signal t args kw
  else match super_init f with
       | Some _ => spec_field_action args kw
       | None => Raise OtherError
       end.

Definition actW : world :=
  {| w_call := act_call; w_get := get_plain; w_set := fun _ _ _ _ => Ret tt;
     w_isinstance := fun _ _ _ => Raise OtherError |}.
End World.

(* ---- the nine classes *)
Inductive acls := CR | CW | CRW | CRW1C | CRW1S | CResRAW0 | CResRAWL | CResR0WA | CResR0W0.

Definition kind_of (c : acls) : A.kind :=
  match c with
  | CR => A.KR | CW => A.KW | CRW => A.KRW | CRW1C => A.KRW1C | CRW1S => A.KRW1S
  | CResRAW0 | CResRAWL | CResR0WA | CResR0W0 => A.KRes
  end.

Definition cls_name (c : acls) : string :=
  match c with
  | CR => "R" | CW => "W" | CRW => "RW" | CRW1C => "RW1C" | CRW1S => "RW1S"
  | CResRAW0 => "ResRAW0" | CResRAWL => "ResRAWL" | CResR0WA => "ResR0WA" | CResR0W0 => "ResR0W0"
  end.

(* the generated constructor of each class (classes without storage take no init argument) *)
Definition gen_of (c : acls) (W : world) (t : trace) (slf shape init : pv) : comp (pv * trace) :=
  match c with
  | CR => gen_action_R_init W t slf shape
  | CW => gen_action_W_init W t slf shape
  | CRW => gen_action_RW_init W t slf shape init
  | CRW1C => gen_action_RW1C_init W t slf shape init
  | CRW1S => gen_action_RW1S_init W t slf shape init
  | CResRAW0 => gen_action_ResRAW0_init W t slf shape
  | CResRAWL => gen_action_ResRAWL_init W t slf shape
  | CResR0WA => gen_action_ResR0WA_init W t slf shape
  | CResR0W0 => gen_action_ResR0W0_init W t slf shape
  end.

Definition run (rw : Z -> Z -> Z -> Z * bool) (c : acls) (shape init : pv) : comp (pv * trace) :=
  gen_of c (actW rw) [EvNew (cls_name c)] (YObj (cls_name c) 0) shape init.

(* ---- what the model says each kind of action is: the access mode of its port, and its members besides `port`
   (Model/Actions.v: KR reads in_r_data and drives o_r_stb; KW drives o_w_data, o_w_stb; the storage kinds drive
   o_data; KRW1C reads in_set, KRW1S reads in_clear; KRes has nothing) - (name, direction, shape), in the order
   they are declared *)
Definition access_of (k : A.kind) : string :=
  match k with A.KR => "r" | A.KW => "w" | A.KRW | A.KRW1C | A.KRW1S => "rw" | A.KRes => "nc" end.
Definition members_of (k : A.kind) (shape : pv) : list (string * string * pv) :=
  match k with
  | A.KR => [("r_data", "In", shape); ("r_stb", "Out", YInt 1)]
  | A.KW => [("w_data", "Out", shape); ("w_stb", "Out", YInt 1)]
  | A.KRW => [("data", "Out", shape)]
  | A.KRW1C => [("data", "Out", shape); ("set", "In", shape)]
  | A.KRW1S => [("clear", "In", shape); ("data", "Out", shape)]
  | A.KRes => []
  end%string.

(* ---- what the trace says was built *)
Fixpoint find_super (t : trace) (slf : pv) : option (list pv * list (string * pv)) :=
  match t with
  | [] => None
  | EvCall f args kw _ :: t' =>
      match super_init f with
      | Some (_, s) => if ref_eqb s slf then Some (args, kw) else find_super t' slf
      | None => find_super t' slf
      end
  | _ :: t' => find_super t' slf
  end.

Fixpoint member_descr (l : list (pv * pv)) : option (list (string * string * pv)) :=
  match l with
  | [] => Some []
  | (YStr n, YCon d [sh] []) :: l' =>
      match member_descr l' with Some r => Some ((n, d, sh) :: r) | None => None end
  | _ => None
  end.

Record built := { b_access : pv; b_shape : pv; b_members : list (string * string * pv);
                  b_storage : option (pv * pv) }.      (* Signal(shape, init=init) held in self._storage *)

Definition aview (slf : pv) (t : trace) : comp built :=
  match find_super t slf with
  | Some (args, kw) =>
      match fa_args args kw with
      | Some (sh, ac, mem) =>
          let* ml := members_list mem in
          match member_descr ml with
          | Some md =>
              let st := match last_set t slf "_storage" with
                        | Some sg => match call_of t sg with
                                     | Some (_, [s], kw') => Some (s, kw_or_none "init" kw')
                                     | _ => None
                                     end
                        | None => None
                        end in
              Ret {| b_access := ac; b_shape := sh; b_members := md; b_storage := st |}
          | None => Raise OtherError
          end
      | None => Raise OtherError
      end
  | None => Raise OtherError
  end.

(* Signal(unsigned(w), init=i) resets to the low w bits of i (Amaranth) *)
Definition reset_of (st : option (pv * pv)) : Z :=
  match st with
  | Some (YCon _ [YInt w] [], YInt i) => trunc w i
  | Some (YInt w, YInt i) => trunc w i
  | _ => 0
  end.

Ltac norm := lazy beta iota zeta delta [
  cbind run_comp fcall fset fnew tlen w_call w_get w_set w_isinstance
  ref_eqb kw_get last_set call_of calls_of num mknum py_is_none py_is_int py_is_str py_is_bool py_is_range py_is_dict
  py_is_list py_is_tuple not_numbers py_arith py_neg py_invert py_cmp py_eq_opt py_eq py_truth index_of py_range
  nums in_list py_in py_len py_iter dict_lookup dict_str py_getitem py_max py_min py_exact_log2 py_ceil_log2
  String.eqb Ascii.eqb Bool.eqb Nat.eqb negb andb orb fst snd List.app
  is_glob meth_recv super_init obj_is get_plain kw_or_none kw_of
  shape_cast1 shape_cast pairs members_list access_ok fa_args spec_field_action spec_signal act_call actW
  kind_of cls_name gen_of access_of members_of find_super member_descr aview run
  b_access b_shape b_members b_storage A.has_storage
  gen_action_R_init gen_action_W_init gen_action_RW_init gen_action_RW1C_init gen_action_RW1S_init
  gen_action_Reserved_init gen_action_ResRAW0_init gen_action_ResRAWL_init gen_action_ResR0WA_init
  gen_action_ResR0W0_init
  gen_action_R_class gen_action_W_class gen_action_RW_class gen_action_RW1C_class gen_action_RW1S_class
  gen_action_Reserved_class gen_action_ResRAW0_class gen_action_ResRAWL_class gen_action_ResR0WA_class
  gen_action_ResR0W0_class ].

Definition expected (c : acls) (shape init : pv) : built :=
  {| b_access := YStr (access_of (kind_of c)); b_shape := shape; b_members := members_of (kind_of c) shape;
     b_storage := if A.has_storage (kind_of c) then Some (shape, init) else None |}.

(* Every action class, for every width and every integer init: the constructor succeeds and builds a port with
   the access mode, the members (names, directions, shapes, in declaration order) and - exactly for the kinds the
   model gives storage - the storage Signal(shape, init=init) of the model's kind; its reset value is the model's
   init_state. *)
Theorem tie_action_ctor : forall rw c w i,
  0 <= w ->
  let shape := YCon "unsigned" [YInt w] [] in
  run_comp (let* '(o, t') := run rw c shape (YInt i) in aview o t')
    = Ok (expected c shape (YInt i)) /\
  reset_of (b_storage (expected c shape (YInt i))) = A.init_state {| A.c_kind := kind_of c; A.c_w := w; A.c_init := i |}.
Proof.
  intros rw c w i Hw shape. subst shape.
  assert (E : (w <? 0) = false) by lia.
  split.
  - destruct c; norm; rewrite E; reflexivity.
  - destruct c; reflexivity.
Qed.
Print Assumptions tie_action_ctor.

(* the range() rule of the three actions with storage: a range shape admits exactly the initial values it
   contains (anything else is ValueError, raised after the port was built and before the storage signal is); the
   actions without storage take no init *)
Theorem tie_action_range_rule : forall rw c a b s i,
  A.has_storage (kind_of c) = true ->
  run_comp (let* '(o, t') := run rw c (YRange a b s) (YInt i) in aview o t')
    = if range_mem a b s i then Ok (expected c (YRange a b s) (YInt i)) else Err ValueError.
Proof.
  intros rw c a b s i H. destruct c; try discriminate H; norm; destruct (range_mem a b s i); reflexivity.
Qed.
Print Assumptions tie_action_range_rule.

(* an init that is None / not a number is never accepted by an action with storage: outside a range shape it is
   not contained (ValueError), with a plain shape Signal() refuses it (TypeError) *)
Theorem tie_action_bad_init : forall rw c w a b s,
  A.has_storage (kind_of c) = true -> 0 <= w ->
  (forall init, init = YNone \/ init = YBad ->
     run_comp (run rw c (YRange a b s) init) = Err ValueError /\
     run_comp (run rw c (YCon "unsigned" [YInt w] []) init) = Err TypeError).
Proof.
  intros rw c w a b s H Hw init Hi. assert (E : (w <? 0) = false) by lia.
  destruct c; try discriminate H; destruct Hi as [-> | ->]; split; norm; rewrite ?E; reflexivity.
Qed.
Print Assumptions tie_action_bad_init.

(* an object that is not shape-like is refused by every class with TypeError (by csr.FieldAction.__init__) *)
Theorem tie_action_bad_shape : forall rw c init shape,
  shape = YNone \/ shape = YBad \/ (exists w, w < 0 /\ shape = YInt w) ->
  run_comp (run rw c shape init) = Err TypeError.
Proof.
  intros rw c init shape [-> | [-> | (w & Hw & ->)]]; [| | assert (E : (w <? 0) = true) by lia];
    destruct c; norm; rewrite ?E; reflexivity.
Qed.
Print Assumptions tie_action_bad_shape.

End ActTie.

(* ================================================================ Part 5: gpio.Peripheral and its registers *)

Module GpioTie.
Module G := Soc.Model.Gpio.
Import ActTie.

(* ---- csr.Field(cls, args..).create() = cls(args..): the TRANSLATED constructor of the action
   class is run (Part 4's world), and the port it builds gives the field's shape and access mode *)
Definition no_rw (a b c : Z) : Z * bool := (0, false).
Definition port_of (r : comp (pv * trace)) : option (pv * pv) :=
  match run_comp (let* '(o, t) := r in aview o t) with
  | Ok b => Some (b_shape b, b_access b)
  | Err _ => None
  end.
Definition field_port (cls : pv) (args : list pv) (kw : list (string * pv)) : option (pv * pv) :=
  let W := actW no_rw in
  match cls with
  | YGlobal s =>
      match args with
      | [sh] =>
          if String.eqb s "csr.action.R" then port_of (gen_action_R_init W [EvNew "R"] (YObj "R" 0) sh)
          else if String.eqb s "csr.action.W" then port_of (gen_action_W_init W [EvNew "W"] (YObj "W" 0) sh)
          else if String.eqb s "csr.action.RW" then
            port_of (gen_action_RW_init W [EvNew "RW"] (YObj "RW" 0) sh
                       (match kw_get "init" kw with Some i => i | None => gen_action_RW_init_default_init end))
          else None
      | _ => None
      end
  | YCon f [YStr q; _; _] _ =>
      if (if String.eqb f "class" then String.eqb q "Peripheral.Output._FieldAction" else false) then
        match args with
        | [] => port_of (gen_gpio_Peripheral_Output__FieldAction_init W [EvNew q] (YObj q 0))
        | _ => None
        end
      else None
  | _ => None
  end.

Definition shape_width (sh : pv) : option Z :=
  match run_comp (shape_cast no_rw sh) with Ok (w, _) => Some w | Err _ => None end.

(* (element width, some field readable, some field writable) of a field collection: csr/reg.py:493-510 *)
Definition info : Type := (Z * bool * bool)%type.
Definition add_info (a b : option info) : option info :=
  match a, b with
  | Some (w, r, x), Some (w', r', x') => Some (w + w', if r then true else r', if x then true else x')
  | _, _ => None
  end.
Definition field_info (cls : pv) (args : list pv) (kw : list (string * pv)) : option info :=
  match field_port cls args kw with
  | Some (sh, YStr a) =>
      match shape_width sh with
      | Some w => Some (w, if String.eqb a "r" then true else String.eqb a "rw",
                           if String.eqb a "w" then true else String.eqb a "rw")
      | None => None
      end
  | _ => None
  end.
Fixpoint elem_info (v : pv) : option info :=
  match v with
  | YDict l =>
      match l with
      | [] => None
      | _ => (fix go (l : list (pv * pv)) : option info :=
                match l with [] => Some (0, false, false) | (_, x) :: l' => add_info (elem_info x) (go l') end) l
      end
  | YList l =>
      match l with
      | [] => None
      | _ => (fix go (l : list pv) : option info :=
                match l with [] => Some (0, false, false) | x :: l' => add_info (elem_info x) (go l') end) l
      end
  | YCon f (cls :: args) kw => if String.eqb f "csr.Field" then field_info cls args kw else None
  | _ => None
  end.

(* the element access mode a csr.Register subclass declares in its class statement: (readable, writable) *)
Definition cls_access (cls : pv) : option (bool * bool) :=
  match cls with
  | YCon _ _ kw =>
      match kw_get "access" kw with
      | Some (YStr a) =>
          if String.eqb a "r" then Some (true, false) else if String.eqb a "w" then Some (false, true)
          else if String.eqb a "rw" then Some (true, true) else None
      | _ => None
      end
  | _ => None
  end.

(* csr.Register.__init__(fields) in a subclass declared with access=          amaranth_soc/csr/reg.py:461-512
   None = accepted *)
Definition reg_check (cls fields : pv) : option exn :=
  match cls_access cls with
  | None => Some ValueError
  | Some (rd, wr) =>
      match elem_info fields with
      | None => Some TypeError
      | Some (_, r, x) =>
          if (if r then negb rd else false) then Some ValueError
          else if (if x then negb wr else false) then Some ValueError else None
      end
  end.
Definition reg_ok (cls fields : pv) : bool := match reg_check cls fields with None => true | Some _ => false end.
Definition reg_exn (cls fields : pv) : exn := match reg_check cls fields with None => OtherError | Some e => e end.
Definition reg_width (fields : pv) : Z := match elem_info fields with Some (w, _, _) => w | None => 0 end.

(* is `cls` a class statement with first base `base`? *)
Definition base_is (cls : pv) (base : string) : bool :=
  match cls with
  | YCon _ [_; YTuple (YGlobal b :: _); _] _ => String.eqb b base
  | _ => false
  end.

(* the class statement and the arguments of the super().__init__ call made for the object slf *)
Fixpoint find_super_cls (t : trace) (slf : pv) : option (pv * list pv) :=
  match t with
  | [] => None
  | EvCall f args _ _ :: t' =>
      match super_init f with
      | Some (cls, s) => if ref_eqb s slf then Some (cls, args) else find_super_cls t' slf
      | None => find_super_cls t' slf
      end
  | _ :: t' => find_super_cls t' slf
  end.

(* csr.Builder: the registers handed to add(), oldest first, as (element width, (readable, writable)) *)
Fixpoint specs_of (t : trace) (adds : list (string * list pv * list (string * pv))) : list (Z * (bool * bool)) :=
  match adds with
  | [] => []
  | (m, [_; reg], _) :: l =>
      if String.eqb m "add" then
        match find_super_cls t reg with
        | Some (cls, [fields]) =>
            match cls_access cls with
            | Some acc => (reg_width fields, acc) :: specs_of t l
            | None => specs_of t l
            end
        | _ => specs_of t l
        end
      else specs_of t l
  | _ :: l => specs_of t l
  end.
Definition builder_specs (t : trace) (b : pv) : list (Z * (bool * bool)) := specs_of t (calls_on t b).

(* csr.Builder(addr_width=, data_width=), granularity 8                        amaranth_soc/csr/reg.py:598-608 *)
Definition spec_builder (t : trace) (kw : list (string * pv)) : comp pv :=
  match kw_get "addr_width" kw, kw_get "data_width" kw with
  | Some aw, Some dw =>
      let* c := not_int_or aw CLe 0 in
      Branch c (Raise TypeError) (
      let* c := not_int_or dw CLe 0 in
      Branch c (Raise TypeError) (
      let* q := py_arith AFloorDiv dw (YInt 8) in
      let* m := py_arith AMul q (YInt 8) in
      let* e := py_eq dw m in
      Branch e (Ret (YObj "csr.Builder" (tlen t))) (Raise ValueError)))
  | _, _ => Raise TypeError
  end.

(* Builder.as_memory_map(): MemoryMap(addr_width, data_width) and one add_resource per register in insertion
   order with implicit addresses - Model.Gpio.place (whose agreement with the memory-map model is proved in
   Proofs/Gpio.v, and with Builder.as_memory_map's arithmetic in Gen/TieBuilder.v) *)
Definition place_of (t : trace) (b : pv) : res (list Mux.reg) :=
  match kw_get "addr_width" (kw_of t b), kw_get "data_width" (kw_of t b) with
  | Some (YInt aw), Some (YInt dw) => G.place aw dw 0 (builder_specs t b)
  | _, _ => Err OtherError
  end.
Definition spec_as_memory_map (t : trace) (b : pv) : comp pv :=
  Branch (is_ok (place_of t b)) (Ret (YObj "MemoryMap" (tlen t))) (Raise (err_of (place_of t b))).

(* the Builder whose as_memory_map() produced mm *)
Definition builder_of (t : trace) (mm : pv) : option pv :=
  match call_of t mm with
  | Some (g, [], []) => meth_recv g "as_memory_map"
  | _ => None
  end.

(* csr.Bridge(memory_map): a csr.Multiplexer over the registers of the map     amaranth_soc/csr/reg.py:778-793 *)
Definition mux_of (t : trace) (mm : pv) : res Mux.cfg :=
  match builder_of t mm with
  | Some b =>
      match kw_get "data_width" (kw_of t b), place_of t b with
      | Some (YInt dw), Ok regs =>
          match Mux.mk_cfg dw regs None with Some mc => Ok mc | None => Err OtherError end
      | _, Err e => Err e
      | _, _ => Err OtherError
      end
  | None => Err TypeError
  end.
Definition spec_bridge (t : trace) (args : list pv) : comp pv :=
  match args with
  | [mm] => Branch (is_ok (mux_of t mm)) (Ret (YObj "csr.Bridge" (tlen t))) (Raise (err_of (mux_of t mm)))
  | _ => Raise TypeError
  end.

(* csr.Signature(addr_width=, data_width=)                                      amaranth_soc/csr/bus.py *)
Definition spec_csr_signature (t : trace) (kw : list (string * pv)) : comp pv :=
  match kw_get "addr_width" kw, kw_get "data_width" kw with
  | Some aw, Some dw =>
      let* c := not_int_or aw CLe 0 in
      Branch c (Raise TypeError) (
      let* c := not_int_or dw CLe 0 in
      Branch c (Raise TypeError) (Ret (YObj "csr.Signature" (tlen t))))
  | _, _ => Raise TypeError
  end.

Definition gp_call (t : trace) (f : pv) (args : list pv) (kw : list (string * pv)) : comp pv :=
  if is_glob f "csr.Builder" then spec_builder t kw
  else if is_glob f "csr.Bridge" then spec_bridge t args
  else if is_glob f "csr.Signature" then spec_csr_signature t kw
  else match super_init f with
  | Some (cls, _) =>
      if base_is cls "csr.Register" then
        match args with
        | [fields] => Branch (reg_ok cls fields) (Ret YNone) (Raise (reg_exn cls fields))
        | _ => Raise TypeError
        end
      else Ret YNone                   (* wiring.Signature.__init__(members) / wiring.Component.__init__(members) *)
  | None =>
  match meth_recv f "add", meth_recv f "as_memory_map", meth_recv f "array" with
  | Some b, _, _ => match args with [_; reg] => Ret reg | _ => Raise TypeError end      (* Builder.add returns reg *)
  | _, Some b, _ => spec_as_memory_map t b
  | _, _, Some m => Ret (YCon "array" (m :: args) [])                                   (* Out(sig).array(n) *)
  | _, _, _ => Raise OtherError
  end end.

Definition gpW : world :=
  {| w_call := gp_call; w_get := get_plain; w_set := fun _ _ _ _ => Ret tt;
     w_isinstance := fun _ _ _ => Raise OtherError |}.

Definition force (r : res Mux.cfg) : Mux.cfg :=
  match r with Ok m => m | Err _ => {| Mux.c_dw := 0; Mux.c_regs := []; Mux.c_Sr := 0; Mux.c_Sw := 0 |} end.

(* ---- arguments *)
Definition inj (a : pyint) : pv := match a with VInt z => YInt z | VNone => YNone | VBad => YBad end.
Definition slf : pv := YObj "Peripheral" 0.
Definition tr0 : trace := [EvNew "Peripheral"].
Definition run (p : G.params) : comp (pv * trace) :=
  gen_gpio_Peripheral_init gpW tr0 slf (inj (G.p_pins p)) (inj (G.p_aw p)) (inj (G.p_dw p)) (inj (G.p_stages p)).

(* ---- the configuration of the constructed peripheral, read off the trace: pin count and stages as stored, the
   widths the Builder was given, the multiplexer of the Bridge held in self._bridge *)
Definition view (t : trace) : comp G.cfg :=
  let* pins := getZ (last_set t slf "_pin_count") in
  let* st := getZ (last_set t slf "_input_stages") in
  match last_set t slf "_bridge" with
  | Some br =>
      match call_of t br with
      | Some (f, [mm], _) =>
          if is_glob f "csr.Bridge" then
            match builder_of t mm with
            | Some b =>
                let* aw := getZ (kw_get "addr_width" (kw_of t b)) in
                let* dw := getZ (kw_get "data_width" (kw_of t b)) in
                Branch (is_ok (mux_of t mm))
                  (Ret {| G.g_pins := Z.to_nat pins; G.g_stages := Z.to_nat st; G.g_aw := aw; G.g_dw := dw;
                          G.g_mux := force (mux_of t mm) |})
                  (Raise (err_of (mux_of t mm)))
            | None => Raise OtherError
            end
          else Raise OtherError
      | _ => Raise OtherError
      end
  | None => Raise OtherError
  end.

(* ---- n equal fields under the key "pin" *)
Definition elem_w (x : pv) : Z := match elem_info x with Some (w, _, _) => w | None => 0 end.
Definition elem_ok (cls x : pv) : bool :=
  match cls_access cls, elem_info x with
  | Some (rd, wr), Some (_, r, a) => (if r then rd else true) && (if a then wr else true)
  | _, _ => false
  end.

Definition sum_infos (l : list pv) : option info :=
  fold_right (fun x acc => add_info (elem_info x) acc) (Some (0, false, false)) l.

Lemma go_list l :
  (fix go (l : list pv) : option info :=
     match l with [] => Some (0, false, false) | x :: l' => add_info (elem_info x) (go l') end) l = sum_infos l.
Proof. unfold sum_infos. induction l as [|y l IH]; [reflexivity|]. cbn [fold_right]. rewrite <- IH. reflexivity. Qed.

Lemma elem_info_list l : elem_info (YList l) = match l with [] => None | _ => sum_infos l end.
Proof. destruct l as [|x l]; [reflexivity|]. exact (go_list (x :: l)). Qed.

Lemma sum_repeat x k w r a : elem_info x = Some (w, r, a) -> (0 < k)%nat ->
  sum_infos (repeat x k) = Some (w * Z.of_nat k, r, a).
Proof.
  intros E Hk. induction k as [|k IH]; [lia|]. cbn [repeat sum_infos fold_right]. fold (sum_infos (repeat x k)).
  destruct k as [|k'].
  - cbn [repeat sum_infos fold_right]. rewrite E. cbn [add_info]. destruct r, a; do 3 f_equal; lia.
  - rewrite IH by lia. rewrite E. cbn [add_info]. destruct r, a; do 3 f_equal; lia.
Qed.

Lemma elem_info_pins x k : (0 < k)%nat ->
  elem_info (YDict [(YStr "pin", YList (repeat x k))]) =
  match elem_info x with Some (w, r, a) => Some (w * Z.of_nat k, r, a) | None => None end.
Proof.
  intros Hk.
  change (elem_info (YDict [(YStr "pin", YList (repeat x k))]))
    with (add_info (elem_info (YList (repeat x k))) (Some (0, false, false))).
  rewrite elem_info_list.
  destruct k as [|k']; [lia|]. cbn [repeat]. change (x :: repeat x k') with (repeat x (S k')).
  destruct (elem_info x) as [[[w r] a]|] eqn:E.
  - rewrite (sum_repeat x (S k') w r a E Hk). cbn [add_info]. destruct r, a; do 3 f_equal; lia.
  - cbn [repeat sum_infos fold_right]. rewrite E. reflexivity.
Qed.

Lemma reg_ok_pins cls x k : (0 < k)%nat -> elem_ok cls x = true ->
  reg_ok cls (YDict [(YStr "pin", YList (repeat x k))]) = true.
Proof.
  intros Hk H. unfold reg_ok, reg_check. rewrite elem_info_pins by exact Hk. unfold elem_ok in H.
  destruct (cls_access cls) as [[rd wr]|]; [|discriminate H].
  destruct (elem_info x) as [[[w r] a]|]; [|discriminate H].
  destruct r, a, rd, wr; try discriminate H; reflexivity.
Qed.

Lemma reg_width_pins x k : (0 < k)%nat ->
  reg_width (YDict [(YStr "pin", YList (repeat x k))]) = elem_w x * Z.of_nat k.
Proof.
  intros Hk. unfold reg_width, elem_w. rewrite elem_info_pins by exact Hk.
  destruct (elem_info x) as [[[w r] a]|]; reflexivity.
Qed.

(* ---- the structure of the constructed peripheral, read off the trace *)
Definition cls_of (o : pv) : string := match o with YObj c _ => c | _ => "" end.
Definition fname (f : pv) : string := match f with YGlobal s => s | _ => "" end.
(* an object shown as the call that made it: an instance of a translated class as <class>(arguments of its
   super().__init__), anything else as <callee>(args, kwargs) *)
Definition resolve (t : trace) (x : pv) : pv :=
  match find_super_cls t x with
  | Some (_, args) => YCon (cls_of x) args []
  | None => match call_of t x with Some (f, args, kw) => YCon (fname f) args kw | None => x end
  end.
Definition member_show (t : trace) (v : pv) : pv :=
  match v with
  | YCon f [YCon g [x] []; n] [] => YCon f [YCon g [resolve t x] []; n] []
  | YCon f [x] [] => YCon f [resolve t x] []
  | _ => v
  end.
Fixpoint members_show (t : trace) (l : list (pv * pv)) : list (pv * pv) :=
  match l with [] => [] | (k, v) :: l' => (k, member_show t v) :: members_show t l' end.
Fixpoint adds_show (t : trace) (l : list (string * list pv * list (string * pv))) : list (string * pv * string * pv) :=
  match l with
  | [] => []
  | (m, [nm; reg], _) :: l' =>
      (m, nm, cls_of reg, match find_super_cls t reg with Some (_, [f]) => f | _ => YNone end) :: adds_show t l'
  | (m, _, _) :: l' => (m, YNone, ""%string, YNone) :: adds_show t l'
  end.
Definition attr_cls (t : trace) (a : string) : string :=
  match last_set t slf a with Some o => cls_of o | None => ""%string end.

Fixpoint tlen_kw (l : list (string * pv)) : nat := match l with [] => O | _ :: l' => S (tlen_kw l') end.
Record structure := {
  s_builder : list (string * pv);                 (* csr.Builder(addr_width=, data_width=): the keywords, by name *)
  s_calls : list (string * pv * string * pv);     (* the calls on it: add(name, <class>(fields)) ..., as_memory_map() *)
  s_attrs : list string;                          (* classes of self._mode, _input, _output, _setclr *)
  s_members : list (pv * pv);                     (* wiring.Component.__init__(members) *)
  s_map_linked : bool                             (* self.bus.memory_map is self._bridge.bus.memory_map *)
}.

Definition view_struct (t : trace) : comp structure :=
  match last_set t slf "_bridge" with
  | Some br =>
      match call_of t br with
      | Some (_, [mm], _) =>
          match builder_of t mm, find_super_cls t slf with
          | Some b, Some (_, [YDict members]) =>
              Ret {| s_builder := [("addr_width", kw_or_none "addr_width" (kw_of t b));
                                   ("data_width", kw_or_none "data_width" (kw_of t b));
                                   ("#keywords", YInt (Z.of_nat (tlen_kw (kw_of t b))))]%string;
                     s_calls := adds_show t (calls_on t b);
                     s_attrs := [attr_cls t "_mode"; attr_cls t "_input"; attr_cls t "_output"; attr_cls t "_setclr"];
                     s_members := members_show t members;
                     s_map_linked := match last_set t (YAttr slf "bus") "memory_map" with
                                     | Some m => ref_eqb m (YAttr (YAttr br "bus") "memory_map")
                                     | None => false
                                     end |}
          | _, _ => Raise OtherError
          end
      | _ => Raise OtherError
      end
  | None => Raise OtherError
  end.

(* what Model/Gpio.v says is built (its header and reg_specs): pin_count fields per register - Mode: action.RW
   over the 2-bit PinMode enumeration; Input: action.R, 1 bit; Output: its own _FieldAction; SetClr: {set, clr},
   each action.W, 1 bit - added as "Mode", "Input", "Output", "SetClr" in this order, then as_memory_map() *)
Definition u1 : pv := YCon "unsigned" [YInt 1] [].
Definition pin_mode : pv :=
  YCon "class" [YStr "PinMode"; YTuple [YGlobal "enum.Enum"];
                YDict [(YStr "INPUT_ONLY", YInt 0); (YStr "PUSH_PULL", YInt 1); (YStr "OPEN_DRAIN", YInt 2);
                       (YStr "ALTERNATE", YInt 3)]] [("shape"%string, YCon "unsigned" [YInt 2] [])].
Definition out_action : pv :=
  YCon "class" [YStr "Peripheral.Output._FieldAction"; YTuple [YGlobal "csr.FieldAction"]; YDict []] [].
Definition pins_of (x : pv) (n : Z) : pv := YDict [(YStr "pin", YList (repeat x (Z.to_nat n)))].
Definition expected_struct (n a d : Z) : structure :=
  {| s_builder := [("addr_width", YInt a); ("data_width", YInt d); ("#keywords", YInt 2)]%string;
     s_calls :=
       [("add", YStr "Mode", "Peripheral.Mode", pins_of (YCon "csr.Field" [YGlobal "csr.action.RW"; pin_mode] []) n);
        ("add", YStr "Input", "Peripheral.Input", pins_of (YCon "csr.Field" [YGlobal "csr.action.R"; u1] []) n);
        ("add", YStr "Output", "Peripheral.Output", pins_of (YCon "csr.Field" [out_action] []) n);
        ("add", YStr "SetClr", "Peripheral.SetClr",
         pins_of (YDict [(YStr "set", YCon "csr.Field" [YGlobal "csr.action.W"; u1] []);
                         (YStr "clr", YCon "csr.Field" [YGlobal "csr.action.W"; u1] [])]) n);
        ("as_memory_map", YNone, "", YNone)]%string;
     s_attrs := ["Peripheral.Mode"; "Peripheral.Input"; "Peripheral.Output"; "Peripheral.SetClr"]%string;
     s_members :=
       [(YStr "bus", YCon "In" [YCon "csr.Signature" [] [("addr_width", YInt a); ("data_width", YInt d)]%string] []);
        (YStr "pins",
         YCon "array" [YCon "Out" [YCon "PinSignature"
                                     [YDict [(YStr "i", YCon "In" [u1] []); (YStr "o", YCon "Out" [u1] []);
                                             (YStr "oe", YCon "Out" [u1] [])]] []] []; YInt n] []);
        (YStr "alt_mode", YCon "Out" [YCon "unsigned" [YInt n] []] [])];
     s_map_linked := true |}.

Ltac norm := lazy beta iota zeta delta [
  cbind run_comp fcall fset fnew tlen w_call w_get w_set w_isinstance
  ref_eqb kw_get last_set call_of calls_of num mknum py_is_none py_is_int py_is_str py_is_bool py_is_range py_is_dict
  py_is_list py_is_tuple not_numbers py_arith py_neg py_invert py_cmp py_eq_opt py_eq py_truth index_of py_range
  nums in_list py_in py_len py_iter py_count py_const_comp py_repeat dict_lookup dict_str py_getitem py_max py_min
  py_exact_log2 py_ceil_log2
  String.eqb Ascii.eqb Bool.eqb Nat.eqb negb andb orb fst snd List.app
  is_glob meth_recv super_init obj_is get_plain kw_or_none calls_on kw_of not_int_or getZ getB port_signature
  cls_access base_is find_super_cls specs_of builder_specs spec_builder place_of spec_as_memory_map builder_of
  mux_of spec_bridge spec_csr_signature gp_call gpW inj slf tr0 run view
  cls_of fname resolve member_show members_show adds_show attr_cls view_struct tlen_kw Z.of_nat Pos.of_succ_nat Pos.succ
  gen_gpio_Peripheral_init gen_gpio_Peripheral_class gen_gpio_Peripheral_init_default_input_stages
  gen_gpio_Peripheral_Mode_init gen_gpio_Peripheral_Mode_class gen_gpio_Peripheral_Input_init
  gen_gpio_Peripheral_Input_class gen_gpio_Peripheral_Output_init gen_gpio_Peripheral_Output_class
  gen_gpio_Peripheral_Output__FieldAction_class gen_gpio_Peripheral_SetClr_init gen_gpio_Peripheral_SetClr_class
  gen_gpio_PinSignature_init gen_gpio_PinSignature_class gen_gpio_PinMode_class
  G.ctor G.posint G.nonneg G.zof G.p_pins G.p_aw G.p_dw G.p_stages G.reg_specs ].
Ltac norm2 := lazy beta iota zeta delta [is_ok err_of force negb andb orb run_comp].
Ltac eval_elem_w :=
  repeat match goal with
         | |- context [elem_w ?x] => let v := eval vm_compute in (elem_w x) in change (elem_w x) with v
         end.
Ltac leaf := first [ reflexivity | exfalso; lia ].

(* the four register constructors with n > 0 pins: accepted by csr.Register.__init__, element widths 2n, n, n, 2n *)
Ltac registers n Hn :=
  let Hk := fresh "Hk" in let Ek := fresh "Ek" in
  assert (Hk : (0 < Z.to_nat (range_len 0 n 1))%nat) by (rewrite range_len_simple; lia);
  assert (Ek : Z.of_nat (Z.to_nat (range_len 0 n 1)) = n) by (rewrite range_len_simple; lia);
  rewrite !reg_ok_pins by (exact Hk || (vm_compute; reflexivity));
  rewrite !reg_width_pins by exact Hk; rewrite !Ek;
  eval_elem_w; rewrite ?Z.mul_1_l.

(* gpio.Peripheral.__init__ = Model.Gpio.ctor for ALL arguments (each of pin_count, addr_width, data_width,
   input_stages an int, None, or not an int): same refusals in the same order with the same exception class
   (pin_count, input_stages by the constructor itself; addr_width, data_width, the granularity rule by csr.Builder;
   a layout that does not fit by Builder.as_memory_map), and on acceptance the same configuration: the registers
   Mode, Input, Output, SetClr - in this order, with element widths 2n, n, n, 2n and access rw, r, rw, w as computed
   from the field dictionaries the translated register classes hand to csr.Register and the ports the translated
   action classes build - placed by Model.Gpio.place, under the multiplexer Model.Mux.mk_cfg gives. *)
Theorem tie_gpio_ctor : forall p, run_comp (let* '(_, t) := run p in view t) = G.ctor p.
Proof.
  intros [pins aw dw stages].
  destruct pins as [n| |]; [|reflexivity|reflexivity].
  destruct stages as [st| |]; [|norm; destruct (0 <? n); reflexivity..].
  destruct aw as [a| |], dw as [d| |]; norm.
  2-9: split_all; leaf.
  destruct (0 <? n) eqn:Hn; [|reflexivity].
  registers n Hn. norm2.
  destruct (G.place a d 0 _) as [regs|e] eqn:P; norm2;
    [destruct (Mux.mk_cfg d regs None) as [mc|] eqn:M; norm2 |]; split_all; leaf.
Qed.
Print Assumptions tie_gpio_ctor.

(* ... and an accepted peripheral has exactly the structure the model describes *)
Theorem tie_gpio_structure : forall n a d st,
  let p := {| G.p_pins := VInt n; G.p_aw := VInt a; G.p_dw := VInt d; G.p_stages := VInt st |} in
  run_comp (let* '(_, t) := run p in view_struct t)
  = match G.ctor p with Ok _ => Ok (expected_struct n a d) | Err e => Err e end.
Proof.
  intros n a d st p. subst p. norm.
  destruct (0 <? n) eqn:Hn; [|reflexivity].
  registers n Hn. norm2.
  replace (Z.to_nat (range_len 0 n 1)) with (Z.to_nat n) by (rewrite range_len_simple; lia).
  match goal with |- context [@Ok structure ?x] => set (L := x) end.
  destruct (G.place a d 0 _) as [regs|e] eqn:P; norm2;
    [destruct (Mux.mk_cfg d regs None) as [mc|] eqn:M; norm2 |]; split_all; first [ leaf | subst L; reflexivity ].
Qed.
Print Assumptions tie_gpio_structure.

End GpioTie.
