(* Tie lemmas for csr.Register and its field collections: FieldActionMap / FieldActionArray construction and
   flatten(), Register.__init__ (with filter_fields), Register.__iter__ and the Python skeleton of
   Register.elaborate, regenerated from /repo's source by harness/translate7.py (RegGen.v, rewritten on every run),
   against Model/RegPack.v.

   How the objects are read is Lib/PyReg.v (pyv) and the docstring of translate7.py.  Model trees enter as
   desc_of t (what the caller writes) and inst_of t (what construction makes of it), Proofs/RegTie.v.
   Calls that leave a method are parameters of the generated definitions (open recursion); they are instantiated
   with the MODEL-defined functions
       ff_of       v = Ok (ret_of (filter_fields (tree_of v)))             the nested filter_fields (ret_of: the
                                                                           model's Junk result is Python's None)
       new_map_of  v = build_ok (tree_of v) ? Ok (inst_of ..) : TypeError  FieldActionMap(v)   (v a dict)
       new_arr_of  v = likewise                                            FieldActionArray(v) (v a list)
       flat_of     v = Ok (flat_paths (itree_of v))                        v.flatten()
   and the theorems state that these satisfy the generated unfolding equations on every tree (tie_*_init,
   tie_*_flatten, tie_filter_fields), that they are the only functions that do (flatten_unique,
   filter_fields_unique, construct_unique), and that the generated Register.__init__ / elaborate, run over them, are
   the model's reg_new / offsets (tie_reg_new, tie_reg_elaborate).

   Preconditions, all spelled out: `wf t` = the keys of every dict in t are pairwise distinct (guaranteed by
   Python; the model's association lists do not say it, and `dst[key] = v` / Mapping.items() differ from the
   model on a repeated key).  String keys are atoms standing for non-empty strings, so the `isinstance(key, str)
   and key` refusal of FieldActionMap.__init__ is not exercised (the model has no such keys: propdef assumption).
   The model's flatten has no paths: flat_paths carries them and `map snd (flat_paths t) = flatten t` on every
   tree construction accepts (RegTie.flat_paths_flatten). *)
From Coq Require Import ZArith List Bool Lia ZifyBool.
From Soc Require Import Lib.Bits Model.RegPack Proofs.RegPack.
From Soc Require Import Lib.Res Lib.PyReg Proofs.RegTie.
From SocGen Require Import RegGen.
Import ListNotations.
Open Scope Z_scope.

(* every `if` of the goal whose test is a closed term *)
Ltac ifs := repeat match goal with |- context [if ?c then _ else _] => destruct c eqn:? end.
Ltac binds := repeat (cbn [bind]; rewrite ?bind_ok_eta).
(* case split on the first computation bound by a let! that is not itself a let! *)
Ltac dbind :=
  match goal with
  | |- context [bind ?r _] =>
      lazymatch r with
      | bind _ _ => fail
      | Ok _ => fail
      | Err _ => fail
      | _ => destruct r eqn:?
      end
  end.
Ltac fin := try solve [reflexivity | congruence | repeat (f_equal; try lia)].

(* ---------------------------------------------------------------------------------------------- *)
(* FieldActionMap.__iter__ / __getitem__ (what Mapping.items() is made of)                          *)

Theorem tie_map_iter : forall self, gen_map_iter self = Ok (map fst (amap_fields self)).
Proof. intros self. unfold gen_map_iter. cbv zeta. binds. fin. Qed.
Print Assumptions tie_map_iter.

Theorem tie_map_getitem : forall self k, gen_map_getitem self k = dict_lookup (amap_fields self) k.
Proof. intros self k. unfold gen_map_getitem. cbv zeta. binds. fin. Qed.
Print Assumptions tie_map_getitem.

(* ---------------------------------------------------------------------------------------------- *)
(* construction                                                                                      *)

Lemma in_d_items x l : In x (d_items l) -> exists k t, x = (KStr k, desc_of t).
Proof. intros H. apply in_map_iff in H. destruct H as ([k t] & <- & _). exists k, t. reflexivity. Qed.

Ltac build_body t0 :=
  unfold build1; destruct t0; cbn [desc_of is_field is_dict is_list fst snd key_is_str key_truthy negb orb];
  cbv zeta; binds; fin.

Theorem tie_map_init : forall t, wf t ->
  gen_map_init new_map_of new_arr_of (desc_of t) = new_map_of (desc_of t).
Proof.
  intros t Hwf. destruct t as [w a| |l|l]; try reflexivity.
  rewrite new_of_Map. apply wf_Map_inv in Hwf. destruct Hwf as [Hnd _].
  unfold gen_map_init. cbn [desc_of is_dict negb orb py_len py_items]. fold (d_items l). cbv zeta.
  rewrite zlen_eq0. unfold d_items at 1. rewrite nilb_map. destruct (nilb l); [reflexivity|].
  erewrite (build_map_loop _ l); [destruct (forallb _ l); reflexivity|exact Hnd|].
  intros x Hx d. destruct (in_d_items x l Hx) as (k & t0 & ->). build_body t0.
Qed.
Print Assumptions tie_map_init.

Theorem tie_arr_init : forall t, wf t ->
  gen_arr_init new_map_of new_arr_of (desc_of t) = new_arr_of (desc_of t).
Proof.
  intros t _. destruct t as [w a| |l|l]; try reflexivity.
  rewrite new_of_Arr.
  unfold gen_arr_init. cbn [desc_of is_list negb orb py_len py_elems]. cbv zeta.
  rewrite zlen_eq0, nilb_map. destruct (nilb l); [reflexivity|].
  erewrite (build_arr_loop _ l); [destruct (forallb _ l); reflexivity|].
  intros x Hx s. apply in_map_iff in Hx. destruct Hx as (t0 & <- & _). build_body t0.
Qed.
Print Assumptions tie_arr_init.

(* new_map_of / new_arr_of are the ONLY pair of functions satisfying the two generated constructor equations *)
Theorem construct_unique : forall NM NA,
  (forall v, NM v = gen_map_init NM NA v) ->
  (forall v, NA v = gen_arr_init NM NA v) ->
  forall t, wf t -> NM (desc_of t) = new_map_of (desc_of t) /\ NA (desc_of t) = new_arr_of (desc_of t).
Proof.
  intros NM NA HM HA t. induction t as [w a| |l IH|l IH] using ftree_ind2; intros Hwf;
    (split; [rewrite HM|rewrite HA]); try reflexivity.
  - rewrite <- (tie_map_init _ Hwf). apply wf_Map_inv in Hwf. destruct Hwf as [_ Hwfl].
    unfold gen_map_init. cbn [desc_of is_dict negb orb py_len py_items]. cbv zeta.
    destruct (zlen _ =? 0); [reflexivity|].
    erewrite for_res_ext_in; [reflexivity|].
    intros [k v] Hin d. apply in_map_iff in Hin. destruct Hin as ([k0 x] & Heq & Hin). inversion Heq; subst k v.
    rewrite Forall_forall in IH, Hwfl. destruct (IH _ Hin (Hwfl _ Hin)) as [E1 E2]. cbn [snd] in E1, E2.
    rewrite ?E1, ?E2. reflexivity.
  - rewrite <- (tie_arr_init _ Hwf). apply wf_Arr_inv in Hwf.
    unfold gen_arr_init. cbn [desc_of is_list negb orb py_len py_elems]. cbv zeta.
    destruct (zlen _ =? 0); [reflexivity|].
    erewrite for_res_ext_in; [reflexivity|].
    intros v Hin d. apply in_map_iff in Hin. destruct Hin as (x & <- & Hin).
    rewrite Forall_forall in IH, Hwf. destruct (IH _ Hin (Hwf _ Hin)) as [E1 E2].
    rewrite ?E1, ?E2. reflexivity.
Qed.
Print Assumptions construct_unique.

(* the constructors in model terms: a dict / list is accepted iff build_ok, and becomes inst_of *)
Theorem tie_construct_model : forall t, wf t ->
  gen_map_init new_map_of new_arr_of (desc_of t)
    = match t with Map _ => if build_ok t then Ok (inst_of t) else Err TypeError | _ => Err TypeError end /\
  gen_arr_init new_map_of new_arr_of (desc_of t)
    = match t with Arr _ => if build_ok t then Ok (inst_of t) else Err TypeError | _ => Err TypeError end.
Proof.
  intros t Hwf. rewrite (tie_map_init t Hwf), (tie_arr_init t Hwf), new_map_of_desc, new_arr_of_desc.
  split; reflexivity.
Qed.
Print Assumptions tie_construct_model.

(* ---------------------------------------------------------------------------------------------- *)
(* flatten                                                                                           *)

Ltac flat_core k f :=
  unfold flat_body; cbn [fst snd key_truthy key_is_str]; cbv zeta;
  destruct f; cbn [is_amap is_aarr orb]; binds; fin;
  dbind; binds; fin;
  (rewrite (for_res_yield _ (pre k)); [binds; fin|intros [? ?] _ ?; reflexivity]).
Ltac flat_body_tac :=
  let k := fresh "k" in let f := fresh "f" in let s := fresh "s" in
  intros [k f] _ s; flat_core k f.

Theorem tie_map_flatten : forall l, wf (Map l) ->
  gen_map_flatten flat_of (inst_of (Map l)) = flat_of (inst_of (Map l)).
Proof.
  intros l Hwf. apply wf_Map_inv in Hwf. destruct Hwf as [Hnd _].
  unfold flat_of at 2. rewrite itree_of_inst. cbn [inst_of is_amap orb]. fold (i_items l).
  unfold gen_map_flatten.
  rewrite (mapping_items_dict (i_items l)).
  - cbn [bind]. erewrite (flat_map_loop _ l); [binds; fin|].
    (* the keys of a FieldActionMap are (non-empty) strings *)
    intros x Hx s. apply in_map_iff in Hx. destruct Hx as ([k0 x0] & <- & _). cbn [fst snd].
    generalize (inst_of x0). intros f. flat_core (KStr k0) f.
  - rewrite i_items_keys. apply nodup_kstr. exact Hnd.
  - rewrite tie_map_iter. reflexivity.
  - intros k. rewrite tie_map_getitem. reflexivity.
Qed.
Print Assumptions tie_map_flatten.

Theorem tie_arr_flatten : forall l, wf (Arr l) ->
  gen_arr_flatten flat_of (inst_of (Arr l)) = flat_of (inst_of (Arr l)).
Proof.
  intros l _. unfold flat_of at 2. rewrite itree_of_inst. cbn [inst_of is_amap is_aarr orb].
  unfold gen_arr_flatten. cbn [aarr_fields].
  erewrite (flat_arr_loop _ l); [binds; fin|]. flat_body_tac.
Qed.
Print Assumptions tie_arr_flatten.

(* the yielded field actions are the model's flatten, in order *)
Theorem tie_flatten_model : forall t, wf t -> build_ok t = true ->
  match t with
  | Map _ => gen_map_flatten flat_of (inst_of t)
  | Arr _ => gen_arr_flatten flat_of (inst_of t)
  | _ => Ok (flat_paths t)
  end = Ok (flat_paths t) /\ map snd (flat_paths t) = map act_of (flatten t).
Proof.
  intros t Hwf Hb. split; [|apply flat_paths_flatten; exact Hb].
  destruct t as [w a| |l|l]; try reflexivity.
  - rewrite (tie_map_flatten l Hwf). unfold flat_of. rewrite itree_of_inst. reflexivity.
  - rewrite (tie_arr_flatten l Hwf). unfold flat_of. rewrite itree_of_inst. reflexivity.
Qed.
Print Assumptions tie_flatten_model.

(* flat_of is the ONLY function satisfying both generated flatten equations (on distinct-key collections) *)
Theorem flatten_unique : forall F,
  (forall v, is_amap v = true -> F v = gen_map_flatten F v) ->
  (forall v, is_aarr v = true -> F v = gen_arr_flatten F v) ->
  forall t, wf t -> is_amap (inst_of t) || is_aarr (inst_of t) = true -> F (inst_of t) = flat_of (inst_of t).
Proof.
  intros F HM HA t. induction t as [w a| |l IH|l IH] using ftree_ind2; intros Hwf Hc; try discriminate.
  - rewrite (HM (inst_of (Map l)) eq_refl), <- (tie_map_flatten l Hwf).
    apply wf_Map_inv in Hwf. destruct Hwf as [Hnd Hwfl].
    unfold gen_map_flatten. cbn [inst_of]. fold (i_items l).
    rewrite !(mapping_items_dict (i_items l)); try (rewrite i_items_keys; apply nodup_kstr; exact Hnd);
      try (rewrite tie_map_iter; reflexivity); try (intros k; rewrite tie_map_getitem; reflexivity).
    cbn [bind]. erewrite for_res_ext_in; [reflexivity|].
    intros [k f] Hin s. apply in_map_iff in Hin. destruct Hin as ([k0 x] & Heq & Hin). inversion Heq; subst k f.
    rewrite Forall_forall in IH, Hwfl. specialize (IH _ Hin (Hwfl _ Hin)). cbn [snd] in IH |- *.
    destruct x; cbn [inst_of is_amap is_aarr orb] in IH |- *; try reflexivity; rewrite (IH eq_refl); reflexivity.
  - rewrite (HA (inst_of (Arr l)) eq_refl), <- (tie_arr_flatten l Hwf).
    apply wf_Arr_inv in Hwf.
    unfold gen_arr_flatten. cbn [inst_of aarr_fields].
    erewrite for_res_ext_in; [reflexivity|].
    intros [k f] Hin s. apply (in_map snd) in Hin. rewrite enum_from_snd in Hin. cbn [snd] in Hin.
    apply in_map_iff in Hin. destruct Hin as (x & <- & Hin).
    rewrite Forall_forall in IH, Hwf. specialize (IH _ Hin (Hwf _ Hin)).
    destruct x; cbn [inst_of is_amap is_aarr orb] in IH |- *; try reflexivity; rewrite (IH eq_refl); reflexivity.
Qed.
Print Assumptions flatten_unique.

(* Register.__iter__ *)
Theorem tie_reg_iter : forall F sf,
  gen_reg_iter F sf = if is_action sf then Ok [([], sf)] else F sf.
Proof. intros F sf. unfold gen_reg_iter. cbv zeta. destruct (is_action sf); binds; [fin|]. destruct (F sf); binds; fin. Qed.
Print Assumptions tie_reg_iter.

(* ---------------------------------------------------------------------------------------------- *)
(* filter_fields                                                                                     *)

Ltac filt_body_tac :=
  let k := fresh "k" in let v := fresh "v" in let d := fresh "d" in
  intros [k v] d; cbn [fst snd]; unfold filt_step; cbv zeta;
  destruct (ff_of v); binds; fin; ifs; binds; fin.

Theorem tie_filter_fields : forall t, wf t ->
  gen_filter_fields ff_of (desc_of t) = ff_of (desc_of t).
Proof.
  intros t Hwf. destruct t as [w a| |l|l]; try reflexivity.
  - rewrite ff_of_Map. apply wf_Map_inv in Hwf. destruct Hwf as [Hnd _].
    unfold gen_filter_fields. cbn [desc_of is_field is_dict is_list orb py_items py_enumerate]. fold (d_items l).
    cbv zeta. erewrite (filter_map_loop _ l); [binds; fin|exact Hnd|]. filt_body_tac.
  - rewrite ff_of_Arr.
    unfold gen_filter_fields. cbn [desc_of is_field is_dict is_list orb py_items py_enumerate]. cbv zeta.
    match goal with |- context [for_res ?f (enum_from 0 (map desc_of l)) []] =>
      destruct (filter_arr_loop f l) as (r & Hr & Hs); [filt_body_tac|] end.
    rewrite Hr. binds. rewrite Hs. reflexivity.
Qed.
Print Assumptions tie_filter_fields.

(* ff_of is the ONLY function satisfying the generated filter_fields equation *)
Theorem filter_fields_unique : forall G,
  (forall v, G v = gen_filter_fields G v) ->
  forall t, wf t -> G (desc_of t) = ff_of (desc_of t).
Proof.
  intros G HG t. induction t as [w a| |l IH|l IH] using ftree_ind2; intros Hwf; rewrite HG; try reflexivity.
  - rewrite <- (tie_filter_fields _ Hwf). apply wf_Map_inv in Hwf. destruct Hwf as [_ Hwfl].
    unfold gen_filter_fields. cbn [desc_of is_field is_dict is_list orb py_items py_enumerate]. cbv zeta.
    erewrite for_res_ext_in; [reflexivity|].
    intros [k v] Hin d. apply in_map_iff in Hin. destruct Hin as ([k0 x] & Heq & Hin). inversion Heq; subst k v.
    rewrite Forall_forall in IH, Hwfl. pose proof (IH _ Hin (Hwfl _ Hin)) as E. cbn [snd] in E.
    cbn [fst snd]. rewrite E. reflexivity.
  - rewrite <- (tie_filter_fields _ Hwf). apply wf_Arr_inv in Hwf.
    unfold gen_filter_fields. cbn [desc_of is_field is_dict is_list orb py_items py_enumerate]. cbv zeta.
    erewrite for_res_ext_in; [reflexivity|].
    intros [k v] Hin d. apply (in_map snd) in Hin. rewrite enum_from_snd in Hin. cbn [snd] in Hin.
    apply in_map_iff in Hin. destruct Hin as (x & <- & Hin).
    rewrite Forall_forall in IH, Hwf. pose proof (IH _ Hin (Hwf _ Hin)) as E.
    cbn [fst snd]. rewrite E. reflexivity.
Qed.
Print Assumptions filter_fields_unique.

(* in model terms *)
Theorem tie_filter_fields_model : forall t, wf t ->
  gen_filter_fields ff_of (desc_of t) = Ok (ret_of (filter_fields t)) /\
  py_truthy (ret_of (filter_fields t)) = truthy (filter_fields t).
Proof.
  intros t Hwf. rewrite (tie_filter_fields t Hwf). unfold ff_of. rewrite tree_of_desc.
  split; [reflexivity|apply py_truthy_ret].
Qed.
Print Assumptions tie_filter_fields_model.

(* ---------------------------------------------------------------------------------------------- *)
(* Register.__init__                                                                                 *)

Ltac chk_body_tac :=
  let p := fresh "p" in let f := fresh "f" in let w := fresh "w" in
  intros [p f] w; unfold chk_body; cbn [fst snd]; cbv zeta; ifs; binds; fin.

(* from `if isinstance(fields, dict)` on, once fields and access are decided: the construction, the iteration,
   the loop *)
Ltac core_tac :=
  dbind; binds; fin; rewrite tie_reg_iter; dbind; binds; fin;
  (erewrite for_res_ext; [reflexivity|chk_body_tac]).

Theorem tie_reg_init : forall annot ca fields ia,
  gen_reg_init ff_of new_map_of new_arr_of flat_of annot ca fields ia = reg_init_ref annot ca fields ia.
Proof.
  intros annot ca fields ia. unfold gen_reg_init, reg_init_ref, core_ref. cbv zeta.
  destruct annot as [a|]; cbn [opt_is_some opt_py];
    [destruct (ff_of a) as [af|e]; binds; fin; destruct (is_none fields); [|destruct (py_truthy af)]; binds; fin|binds];
    (destruct ia as [a'|], ca as [c|]; cbn [oacc_is_none negb andb oacc_eqb]; binds; fin;
     try (destruct (racc_eqb a' c); cbn [negb]; binds; fin));
    core_tac.
Qed.
Print Assumptions tie_reg_init.

(* the whole constructor against the model: same refusals with the same exception class, in the same order;
   an accepted register holds inst_of t, the resolved element access and the summed width *)
Theorem tie_reg_new : forall annot fields ca ia,
  gen_reg_init ff_of new_map_of new_arr_of flat_of (option_map desc_of annot) ca (fields_py fields) ia
  = lift_new (reg_new annot fields ca ia).
Proof. intros. rewrite tie_reg_init. apply reg_init_ref_new. Qed.
Print Assumptions tie_reg_new.

(* the width / compatibility loop alone, over any accepted collection: check_fields *)
Theorem tie_reg_check_fields : forall t ra,
  core_ref (desc_of t) (Some ra) =
  match reg_core t ra with RegPack.Ok w => Ok (inst_of t, Some ra, w) | RegPack.Err e => Err (lift_exn e) end.
Proof. exact core_ref_desc. Qed.
Print Assumptions tie_reg_check_fields.

(* ---------------------------------------------------------------------------------------------- *)
(* Register.elaborate                                                                                *)

Ltac elab_body_tac :=
  let p := fresh "p" in let f := fresh "f" in let m := fresh "m" in let s := fresh "s" in
  intros [p f] [m s]; unfold elab_body, field_stmts; cbn [fst snd]; cbv zeta; ifs; binds;
  repeat rewrite <- app_assoc; cbn [app]; fin.

Theorem tie_reg_elaborate_ref : forall sf,
  gen_reg_elaborate flat_of sf =
  let! items := (if is_action sf then Ok [([], sf)] else flat_of sf) in
  let! ms := for_res elab_body items ([], 0) in Ok (fst ms).
Proof.
  intros sf. unfold gen_reg_elaborate. cbv zeta. rewrite tie_reg_iter.
  destruct (if is_action sf then _ else _) as [items|e]; binds; fin.
  erewrite (for_res_ext _ elab_body); [|elab_body_tac].
  destruct (for_res elab_body items ([], 0)) as [[m s]|e]; binds; fin.
Qed.
Print Assumptions tie_reg_elaborate_ref.

(* field number i of flatten order gets: its submodule; if readable element.r_data[offset_of i : offset_of i + w]
   := port.r_data and port.r_stb := element.r_stb; if writable port.w_data := element.w_data[same slice] and
   port.w_stb := element.w_stb; in this order, fields in flatten order (elab_spec, Proofs/RegTie.v) *)
Theorem tie_reg_elaborate : forall t, build_ok t = true ->
  gen_reg_elaborate flat_of (inst_of t) = Ok (elab_spec (flatten t)).
Proof.
  intros t Hb. rewrite tie_reg_elaborate_ref. rewrite (iter_inst t Hb). cbn [bind].
  rewrite (elab_loop (flatten t) (flat_paths t) [] 0 (flat_paths_flatten t Hb)). cbn [bind fst app].
  rewrite stmts_from_spec. reflexivity.
Qed.
Print Assumptions tie_reg_elaborate.

(* and these statements, interpreted group by group, are the model's combinational register *)
Theorem tie_reg_elaborate_sem : forall e start r f v l,
  elab e start r ((f, v) :: l) =
  let (r1, o) := sem_stmts e v (field_stmts (act_of f) start) (r, fout0) in
  let (rd, os) := elab e (start + f_w f) r1 l in (rd, o :: os).
Proof. exact elab_step_sem. Qed.
Print Assumptions tie_reg_elaborate_sem.
