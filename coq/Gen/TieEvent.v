(* Tie lemmas for the event classes: amaranth_soc/event.py (Source.Trigger, Source.Signature.__init__, the
   Source.event_map property pair, EventMap, Monitor.__init__, Monitor.elaborate) and csr/event.py
   (_EventMaskRegister.__init__, EventMonitor.__init__), regenerated from /repo's source by harness/translate6.py
   (EventGen.v, rewritten on every run), against Model/Event.v and Model/CsrEvent.v.

   Representation (rep): the Python dict `_sources` {id(src): (src, index)} is the model's association list
   em_srcs, entry (i, k) standing for key i, value (PSource i, k).  No lemma about EventMap needs the numbering
   invariant wf_map (indices 0..n-1 in insertion order, identities distinct) as a precondition: the generated
   methods equal the model functions on EVERY represented map; tie_emap_add_wf shows the generated add preserves it.

   Where the model says less than the code:
   * the model has no Signature / Monitor constructor of its own: tie_signature_init / tie_monitor_init state what
     the generated constructors compute (members, widths = the model's em_size = width of monitor_cfg, the frozen
     map, refusals TypeError before ValueError), and tie_evmon_checks ties the refusals to CsrEvent.construct,
     which omits the isinstance(event_map, EventMap) test (its harness always passes a map) - so that lemma is
     stated for maps only;
   * Monitor.elaborate is compared as a token stream up to Boolean equivalence of right-hand sides and conditions
     (stmt_equiv; every non-Boolean sub-expression is an atom), against the statements the model's per-source
     functions stand for: prev1 (the `_r` register exists for edge modes only), trg1 = trg_of by mode
     (tie_trg_expr), pend1 (If trg: pending[s_idx] = 1 / Elif clear[s_idx]: pending[s_idx] = 0), irq.  The bit
     semantics of those statements (comb/sync, If/Elif priority, bit select) stays with the correspondence run. *)
From Coq Require Import String ZArith List Bool Lia ZifyBool Btauto.
From Soc Require Import Lib.Bits Lib.Res Lib.PyObj.
From Soc Require Model.Event Model.CsrEvent Model.MemoryMap Proofs.Event.
From SocGen Require Import EventGen.
Import ListNotations.
Open Scope Z_scope.

Module E := Soc.Model.Event.
Module EP := Soc.Proofs.Event.
Module C := Soc.Model.CsrEvent.
Module MM := Soc.Model.MemoryMap.

(* ------------------------------------------------------------------------------------------------ *)
(* representation                                                                                    *)
(* ------------------------------------------------------------------------------------------------ *)

Definition src_entry (p : Z * nat) : pyobj * Z := (PSource (fst p), Z.of_nat (snd p)).
Definition rep_entry (p : Z * nat) : Z * (pyobj * Z) := (fst p, src_entry p).
Definition rep (m : E.emap) : emap := (map rep_entry (E.em_srcs m), E.em_frozen m).

Definition arg_of (o : pyobj) : E.arg := match o with PSource i => E.Src i | POther _ => E.NotSrc end.
Definition exn_of (e : E.exn) : exn :=
  match e with E.ValueError => ValueError | E.TypeError => TypeError | E.KeyError => KeyError end.

Lemma dict_get_rep k : forall l,
  dict_get k (map rep_entry l) = option_map (fun n => (PSource k, Z.of_nat n)) (E.lookup k l).
Proof.
  induction l as [|[i n] l IH]; [reflexivity|].
  cbn [map rep_entry src_entry fst snd dict_get E.lookup].
  destruct (Z.eqb_spec i k) as [->|_]; [reflexivity | exact IH].
Qed.

(* ------------------------------------------------------------------------------------------------ *)
(* EventMap                                                                                          *)
(* ------------------------------------------------------------------------------------------------ *)

Theorem tie_emap_init : gen_emap_init = Ok (rep E.em_empty).
Proof. reflexivity. Qed.
Print Assumptions tie_emap_init.

Theorem tie_emap_size : forall m, gen_emap_size (rep m) = Ok (Z.of_nat (E.em_size m)).
Proof.
  intros m. unfold gen_emap_size, rep, dict_len, E.em_size. cbv beta iota zeta. rewrite map_length. reflexivity.
Qed.
Print Assumptions tie_emap_size.

Theorem tie_emap_freeze : forall m, gen_emap_freeze (rep m) = Ok (rep (E.em_freeze m)).
Proof. reflexivity. Qed.
Print Assumptions tie_emap_freeze.

(* add: frozen (ValueError) before the isinstance test (TypeError); a repeated source changes nothing; a new
   one goes last with index = size *)
Theorem tie_emap_add : forall m o,
  gen_emap_add (rep m) o =
  match E.em_add m (arg_of o) with
  | (m', None) => Ok (rep m')
  | (_, Some e) => Err (exn_of e)
  end.
Proof.
  intros m o. unfold gen_emap_add, gen_emap_size, E.em_add, rep, bind, dict_mem, dict_len. cbv beta iota zeta.
  destruct (E.em_frozen m) eqn:Hf; [reflexivity|].
  destruct o as [i|i]; cbn [is_source negb obj_id arg_of exn_of]; [|reflexivity].
  rewrite dict_get_rep.
  destruct (E.lookup i (E.em_srcs m)) as [n|] eqn:Hl; cbn [option_map negb E.em_srcs E.em_frozen].
  - rewrite Hf. reflexivity.
  - rewrite dict_set_fresh by (rewrite dict_get_rep, Hl; reflexivity).
    rewrite map_app, map_length. reflexivity.
Qed.
Print Assumptions tie_emap_add.

(* the numbering invariant is preserved by the generated add *)
Theorem tie_emap_add_wf : forall m o e', EP.wf_map m -> gen_emap_add (rep m) o = Ok e' ->
  exists m', e' = rep m' /\ EP.wf_map m'.
Proof.
  intros m o e' Hwf H. rewrite tie_emap_add in H.
  pose proof (EP.wf_step m (E.OAdd (arg_of o)) Hwf) as Hs. cbn [E.step] in Hs.
  destruct (E.em_add m (arg_of o)) as [m' [e|]]; [discriminate|].
  injection H as <-. exists m'. split; [reflexivity | exact Hs].
Qed.
Print Assumptions tie_emap_add_wf.

(* index: the isinstance test (TypeError) before the lookup (KeyError) *)
Theorem tie_emap_index : forall m o,
  gen_emap_index (rep m) o =
  match E.em_index m (arg_of o) with
  | inl k => Ok (Z.of_nat k)
  | inr e => Err (exn_of e)
  end.
Proof.
  intros m o. unfold gen_emap_index, E.em_index, rep, bind. cbv beta iota zeta.
  destruct o as [i|i]; cbn [is_source negb obj_id arg_of exn_of]; [|reflexivity].
  rewrite dict_get_rep. destruct (E.lookup i (E.em_srcs m)); reflexivity.
Qed.
Print Assumptions tie_emap_index.

(* sources(): every (src, index) in insertion order; each call yields all of them again *)
Theorem tie_emap_sources : forall m, gen_emap_sources (rep m) = Ok (map src_entry (E.em_sources m)).
Proof.
  intros m. unfold gen_emap_sources, rep, dict_values, E.em_sources. cbv beta iota zeta.
  rewrite app_nil_l, map_map. reflexivity.
Qed.
Print Assumptions tie_emap_sources.

(* ------------------------------------------------------------------------------------------------ *)
(* Source.Trigger, Source.Signature.__init__, Source.event_map                                       *)
(* ------------------------------------------------------------------------------------------------ *)

Definition mode_of (t : Trigger) : E.mode :=
  match t with Trigger_LEVEL => E.Level | Trigger_RISE => E.Rise | Trigger_FALL => E.Fall end.
Definition trig_of (md : E.mode) : Trigger :=
  match md with E.Level => Trigger_LEVEL | E.Rise => Trigger_RISE | E.Fall => Trigger_FALL end.

(* what a trigger= argument names *)
Definition mode_named (s : string) : option E.mode :=
  if String.eqb "level" s then Some E.Level
  else if String.eqb "rise" s then Some E.Rise
  else if String.eqb "fall" s then Some E.Fall
  else None.
Definition mode_arg (v : pyval Trigger) : option E.mode :=
  match v with VStr s => mode_named s | VMember t => Some (mode_of t) | VOtherVal => None end.

(* the enum has exactly the model's three modes, with these values; == on members is equality *)
Theorem tie_trigger_enum :
  (forall t, trig_of (mode_of t) = t) /\ (forall md, mode_of (trig_of md) = md) /\
  Trigger_members = [(trig_of E.Level, "level"%string); (trig_of E.Rise, "rise"%string); (trig_of E.Fall, "fall"%string)] /\
  (forall a b, Trigger_eqb a b = true <-> a = b).
Proof.
  split; [intros []; reflexivity|]. split; [intros []; reflexivity|]. split; [reflexivity|].
  intros a b. split; [destruct a, b; cbn; congruence | intros ->; destruct b; reflexivity].
Qed.
Print Assumptions tie_trigger_enum.

Definition sig_members : list (string * port) := [("i"%string, (DOut, 1)); ("trg"%string, (DIn, 1))].

Theorem tie_signature_init : forall v,
  gen_signature_init v =
  match mode_arg v with
  | Some md => Ok (sig_members, trig_of md)
  | None => Err ValueError
  end.
Proof.
  intros v. unfold gen_signature_init, enum_call, Trigger_members, bind, mode_arg, mode_named. cbv beta zeta.
  destruct v as [s|t|]; cbn [find snd fst]; [|destruct t; reflexivity|reflexivity].
  destruct (String.eqb "level" s); [reflexivity|].
  destruct (String.eqb "rise" s); [reflexivity|].
  destruct (String.eqb "fall" s); reflexivity.
Qed.
Print Assumptions tie_signature_init.

(* parameter defaults: trigger="level" everywhere, alignment=0 *)
Theorem tie_defaults : mode_arg gen_signature_init_default_trigger = Some E.Level
  /\ mode_arg gen_monitor_init_default_trigger = Some E.Level /\ mode_arg gen_evmon_init_default_trigger = Some E.Level
  /\ gen_evmon_init_default_alignment = VInt 0.
Proof. repeat split; reflexivity. Qed.
Print Assumptions tie_defaults.

(* the setter refuses anything but an EventMap (TypeError) and FREEZES the map it stores *)
Theorem tie_source_set_event_map : forall p,
  gen_source_set_event_map p = match p with PMap e => Ok (PMap (fst e, true)) | _ => Err TypeError end.
Proof. intros [[d f]| |]; reflexivity. Qed.
Print Assumptions tie_source_set_event_map.

Theorem tie_source_set_event_map_model : forall m,
  gen_source_set_event_map (PMap (rep m)) = Ok (PMap (rep (E.em_freeze m))).
Proof. intros m. rewrite tie_source_set_event_map. reflexivity. Qed.
Print Assumptions tie_source_set_event_map_model.

Theorem tie_source_get_event_map : forall p,
  gen_source_get_event_map p = match p with PNone => Err OtherError | _ => Ok p end.
Proof. intros [e| |]; reflexivity. Qed.
Print Assumptions tie_source_get_event_map.

(* ------------------------------------------------------------------------------------------------ *)
(* Monitor.__init__                                                                                  *)
(* ------------------------------------------------------------------------------------------------ *)

Definition monitor_members (md : E.mode) (n : Z) : list (string * member signature) :=
  [("src"%string, MIface DOut (sig_members, trig_of md)); ("enable"%string, MPort DIn n);
   ("pending"%string, MPort DIn n); ("clear"%string, MPort DIn n)].

(* not an EventMap: TypeError; then a bad trigger: ValueError; else src carries the trigger, the three masks are
   size bits wide, and the map handed in is frozen and stored *)
Theorem tie_monitor_init : forall p v,
  gen_monitor_init p v =
  match p with
  | PMap e => match mode_arg v with
              | Some md => Ok (monitor_members md (dict_len (fst e)), PMap (fst e, true))
              | None => Err ValueError
              end
  | _ => Err TypeError
  end.
Proof.
  intros p v. unfold gen_monitor_init. destruct p as [[d f]| |]; cbn [is_map negb]; try reflexivity.
  rewrite tie_signature_init. destruct (mode_arg v) as [md|]; [|reflexivity].
  unfold bind. cbv beta iota. unfold gen_emap_size, emap_of. cbv beta iota zeta.
  rewrite tie_source_set_event_map. reflexivity.
Qed.
Print Assumptions tie_monitor_init.

(* in the model's terms: widths = the number of entries of the monitor configuration *)
Theorem tie_monitor_init_model : forall m v md modes, mode_arg v = Some md ->
  gen_monitor_init (PMap (rep m)) v =
  Ok (monitor_members md (Z.of_nat (E.width (E.monitor_cfg m modes))), PMap (rep (E.em_freeze m))).
Proof.
  intros m v md modes Hv. rewrite tie_monitor_init, Hv.
  unfold rep, dict_len, E.width, E.monitor_cfg, E.em_sources. cbn [fst]. rewrite !map_length. reflexivity.
Qed.
Print Assumptions tie_monitor_init_model.

(* ------------------------------------------------------------------------------------------------ *)
(* Monitor.elaborate                                                                                 *)
(* ------------------------------------------------------------------------------------------------ *)

(* Boolean reading of an expression over one-bit operands; everything that is not ~ & | ^ or a constant is an
   atom (Source.Signature declares i and trg one bit wide, Signal.like copies that, pending[k] is a bit) *)
Fixpoint evalb (env : expr -> bool) (e : expr) : bool :=
  match e with
  | ENot a => negb (evalb env a)
  | EAnd a b => evalb env a && evalb env b
  | EOr a b => evalb env a || evalb env b
  | EXor a b => xorb (evalb env a) (evalb env b)
  | EConst z => Z.odd z
  | _ => env e
  end.
Definition expr_equiv (a b : expr) : Prop := forall env, evalb env a = evalb env b.

(* same statement kind, same domain, same assigned signal; right-hand sides / conditions Boolean-equivalent *)
Inductive stmt_equiv : stmt -> stmt -> Prop :=
| SE_assign d l r r' : expr_equiv r r' -> stmt_equiv (SAssign d l r) (SAssign d l r')
| SE_if c c' : expr_equiv c c' -> stmt_equiv (SIf c) (SIf c')
| SE_elif c c' : expr_equiv c c' -> stmt_equiv (SElif c) (SElif c')
| SE_else : stmt_equiv SElse SElse
| SE_end : stmt_equiv SEnd SEnd.

Definition sub_i (id : Z) : expr := ESub (PSource id) "i".
Definition sub_trg (id : Z) : expr := ESub (PSource id) "trg".
Definition sub_prev (id : Z) : expr := ELike (sub_i id) "_r".          (* sub_i_r *)
Definition pending_bit (k : Z) : expr := EBit (EPort "pending") k.
Definition clear_bit (k : Z) : expr := EBit (EPort "clear") k.

(* the formula assigned to sub.trg, by mode: it IS the model's trg_of *)
Definition trg_expr (md : E.mode) (id : Z) : expr :=
  match md with
  | E.Level => sub_i id
  | E.Rise => EAnd (ENot (sub_prev id)) (sub_i id)
  | E.Fall => EAnd (sub_prev id) (ENot (sub_i id))
  end.

Theorem tie_trg_expr : forall md id env,
  evalb env (trg_expr md id) = E.trg_of md (env (sub_prev id)) (env (sub_i id)).
Proof. intros [] id env; reflexivity. Qed.
Print Assumptions tie_trg_expr.

(* with the two signals read as the model's inputs, it is the model's trg1 for that entry *)
Theorem tie_trg1 : forall (i : E.minp) (s : E.msrc) (prev : bool) env,
  env (sub_i (E.s_id s)) = E.in_i i (E.s_id s) -> env (sub_prev (E.s_id s)) = prev ->
  evalb env (trg_expr (E.s_mode s) (E.s_id s)) = E.trg1 i (s, prev).
Proof. intros i s prev env Hi Hp. rewrite tie_trg_expr, Hi, Hp. reflexivity. Qed.
Print Assumptions tie_trg1.

(* the statements one entry of the monitor configuration stands for in the model:
   prev1 (register only for edge modes), trg1, pend1 at bit s_idx *)
Definition stmts_of (md : E.mode) (id k : Z) : list stmt :=
  (match md with E.Level => [] | _ => [SAssign DSync (sub_prev id) (sub_i id)] end) ++
  [SAssign DComb (sub_trg id) (trg_expr md id);
   SIf (sub_trg id); SAssign DSync (pending_bit k) (EConst 1); SEnd;
   SElif (clear_bit k); SAssign DSync (pending_bit k) (EConst 0); SEnd].
Definition model_stmts (s : E.msrc) : list stmt := stmts_of (E.s_mode s) (E.s_id s) (Z.of_nat (E.s_idx s)).
(* src.i = (enable & pending).any(): the model's irq *)
Definition irq_stmt : stmt := SAssign DComb (EPort "src.i") (EAny (EAnd (EPort "enable") (EPort "pending"))).

Ltac equiv_stmts :=
  repeat first [ apply Forall2_nil | apply Forall2_cons
               | apply SE_assign | apply SE_if | apply SE_elif | apply SE_else | apply SE_end
               | (intros ?env; reflexivity) | (intros ?env; cbn [evalb]; btauto) ].

(* one iteration of `for sub, index in self.src.event_map.sources()`: whatever was emitted before and whatever
   sub_i_r was left over from earlier iterations, the source gets exactly its own statements, at its own index *)
Theorem tie_monitor_loop : forall slot tof acc r id k,
  exists chunk r',
    gen_monitor_elaborate_loop1 slot tof (acc, r) (PSource id, k) = Ok (acc ++ chunk, r') /\
    Forall2 stmt_equiv chunk (stmts_of (mode_of (tof (PSource id))) id k).
Proof.
  intros slot tof acc r id k. unfold gen_monitor_elaborate_loop1.
  destruct (tof (PSource id)); cbv beta iota zeta delta [Trigger_eqb negb bind bound mode_of];
    repeat rewrite <- app_assoc; cbn [app];
    (eexists; eexists; split; [reflexivity|]); unfold stmts_of, trg_expr, sub_prev, sub_i, sub_trg, pending_bit, clear_bit;
    cbn [app]; equiv_stmts.
Qed.
Print Assumptions tie_monitor_loop.

Definition cfg_entry (md : Z -> E.mode) (p : Z * nat) : E.msrc :=
  {| E.s_id := fst p; E.s_idx := snd p; E.s_mode := md (fst p) |}.

Lemma Forall2_app_stmt : forall a a' b b', Forall2 stmt_equiv a a' -> Forall2 stmt_equiv b b' ->
  Forall2 stmt_equiv (a ++ b) (a' ++ b').
Proof. intros a a' b b' H. induction H; cbn [app]; auto. Qed.

Lemma monitor_fold : forall slot md l acc r,
  exists out r',
    fold_res (gen_monitor_elaborate_loop1 slot (fun o => trig_of (md (obj_id o)))) (map src_entry l) (acc, r)
      = Ok (acc ++ out, r') /\
    Forall2 stmt_equiv out (flat_map model_stmts (map (cfg_entry md) l)).
Proof.
  intros slot md l. induction l as [|[i n] l IH]; intros acc r.
  - exists [], r. cbn [map fold_res flat_map]. rewrite app_nil_r. split; [reflexivity | constructor].
  - cbn [map fold_res flat_map].
    change (src_entry (i, n)) with (PSource i, Z.of_nat n).
    change (model_stmts (cfg_entry md (i, n))) with (stmts_of (md i) i (Z.of_nat n)).
    destruct (tie_monitor_loop slot (fun o => trig_of (md (obj_id o))) acc r i (Z.of_nat n)) as (chunk & r1 & -> & Hc).
    destruct (IH (acc ++ chunk) r1) as (out & r2 & -> & Ho).
    exists (chunk ++ out), r2. rewrite app_assoc. split; [reflexivity|].
    apply Forall2_app_stmt; [|exact Ho].
    cbn [obj_id] in Hc. destruct (tie_trigger_enum) as (_ & Hm & _). rewrite Hm in Hc. exact Hc.
Qed.

(* the whole skeleton: for the monitor configuration of ANY represented map and ANY assignment of modes, the
   module consists of every entry's statements (each exactly once, in sources() order, bit index = s_idx)
   followed by the interrupt line; nothing else is emitted and elaborate does not raise *)
Theorem tie_monitor_elaborate : forall m md,
  exists out,
    gen_monitor_elaborate (PMap (rep m)) (fun o => trig_of (md (obj_id o))) = Ok out /\
    Forall2 stmt_equiv out (flat_map model_stmts (E.monitor_cfg m md) ++ [irq_stmt]).
Proof.
  intros m md. unfold gen_monitor_elaborate.
  rewrite tie_source_get_event_map. unfold bind at 1. cbv beta iota. cbn [emap_of].
  rewrite tie_emap_sources. unfold bind at 1. cbv beta iota.
  destruct (monitor_fold (PMap (rep m)) md (E.em_sources m) [] None) as (out & r & -> & Ho).
  unfold bind. cbv beta iota zeta. cbn [app].
  eexists. split; [reflexivity|].
  apply Forall2_app_stmt.
  - unfold E.monitor_cfg. exact Ho.
  - unfold irq_stmt. equiv_stmts.
Qed.
Print Assumptions tie_monitor_elaborate.

(* a map that was never handed to a Monitor: AttributeError (read as OtherError) *)
Theorem tie_monitor_elaborate_unset : forall tof, gen_monitor_elaborate PNone tof = Err OtherError.
Proof. reflexivity. Qed.
Print Assumptions tie_monitor_elaborate_unset.

(* ------------------------------------------------------------------------------------------------ *)
(* csr.EventMonitor.__init__ and _EventMaskRegister                                                  *)
(* ------------------------------------------------------------------------------------------------ *)

(* _EventMaskRegister(width), class keyword access="rw": one field "mask", FieldAction, width bits, rw - so the
   element is `width` bits, readable and writable, which is what CsrEvent.regs_of gives both registers *)
Definition maskreg (n : Z) : register := ("rw"%string, [("mask"%string, ("FieldAction"%string, n, "rw"%string))]).

Theorem tie_maskreg_init : forall n, gen_maskreg_init n = Ok (maskreg n).
Proof. reflexivity. Qed.
Print Assumptions tie_maskreg_init.

(* the calls made on the MemoryMap, replayed on the memory-map model with the identities and name atoms
   Model/CsrEvent.v uses for the two registers *)
Definition atom_of (s : string) : Z :=
  if String.eqb s "enable" then C.atom_enable else if String.eqb s "pending" then C.atom_pending else 3.
Definition rawname_of (n : pyname) : MM.rawname :=
  match n with
  | NmStr s => MM.NStr (atom_of s)
  | NmTuple l => MM.NTuple (map (fun s => MM.RStr (atom_of s)) l)
  end.
Definition res_id (x : xterm) : Z :=
  match x with
  | XRoot a => if String.eqb a "_enable" then C.id_enable else if String.eqb a "_pending" then C.id_pending else 2
  | _ => 2
  end.
Fixpoint replay_adds (m : MM.mmap) (l : list addcall) : res MM.mmap :=
  match l with
  | [] => Ok m
  | c :: l' =>
      match MM.add_resource m (res_id (ac_res c)) true (rawname_of (ac_name c))
                            (ac_size c) (ac_addr c) (ac_alignment c) with
      | Ok (m', _) => replay_adds m' l'
      | Err e => Err e
      end
  end.
Definition replay (t : mmtrace) : res MM.mmap :=
  match MM.new_map (mt_addr_width t) (mt_data_width t) (mt_alignment t) with
  | Ok m0 => replay_adds m0 (mt_adds t)
  | Err e => Err e
  end.

Definition evmon_trace (n : Z) (dw al : pyint) : mmtrace :=
  let rs := C.reg_size n (pi_zof dw) in
  {| mt_addr_width := VInt (1 + Z.max (ceil_log2 rs) (pi_zof al)); mt_data_width := dw; mt_alignment := al;
     mt_adds := [ {| ac_res := XRoot "_enable"; ac_name := NmTuple ["enable"%string]; ac_size := VInt rs;
                     ac_addr := VNone; ac_alignment := VNone |};
                  {| ac_res := XRoot "_pending"; ac_name := NmTuple ["pending"%string]; ac_size := VInt rs;
                     ac_addr := VNone; ac_alignment := VNone |} ] |}.

(* equality of constructor terms whose integer leaves may be written differently (a + 1 / 1 + a) *)
Ltac struct_eq :=
  first [ reflexivity
        | lazymatch goal with |- @eq Z _ _ => lia end
        | progress f_equal; struct_eq ].

Definition evmon_members : list (string * member signature) :=
  [("src"%string, MExt DOut (XAttr (XAttr (XRoot "_monitor") "src") "signature"));
   ("bus"%string, MExt DIn (XMeth (XAttr (XAttr (XRoot "_mux") "bus") "signature") "flip"))].
Definition evmon_stores : list (list string * xterm) :=
  [(["bus"%string; "memory_map"%string], XAttr (XAttr (XRoot "_mux") "bus") "memory_map")].

(* validation order: data_width (ValueError), alignment (ValueError), then event.Monitor's own refusals
   (TypeError for a non-map, ValueError for a bad trigger); then two mask registers as wide as the map, a
   MemoryMap(addr_width = 1 + max(ceil_log2(reg_size), alignment), data_width, alignment) with enable added
   before pending, both reg_size words, no explicit address or alignment; src / bus members and bus.memory_map
   are taken from the monitor and the multiplexer built on that map *)
Theorem tie_evmon_init : forall p v dw al,
  gen_evmon_init p v dw al =
  if negb (MM.posint dw) then Err ValueError
  else if negb (MM.nonneg al) then Err ValueError
  else match gen_monitor_init p v with
       | Err e => Err e
       | Ok mon => let n := dict_len (fst (emap_of (snd mon))) in
                   Ok (mon, maskreg n, maskreg n, evmon_trace n dw al, evmon_members, evmon_stores)
       end.
Proof.
  intros p v dw al. unfold gen_evmon_init.
  (* the two argument checks, whatever way the comparisons are written *)
  destruct dw as [z| |]; cbn [pi_is_int pi_zof MM.posint negb orb]; try reflexivity.
  match goal with |- (if ?c then _ else _) = _ => destruct c eqn:Hc end;
    destruct (0 <? z) eqn:Hz; cbn [negb]; try (exfalso; lia); try reflexivity.
  destruct al as [a| |]; cbn [pi_is_int pi_zof MM.nonneg negb orb]; try reflexivity.
  match goal with |- (if ?c then _ else _) = _ => destruct c eqn:Hc' end;
    destruct (0 <=? a) eqn:Ha; cbn [negb]; try (exfalso; lia); try reflexivity.
  destruct (gen_monitor_init p v) as [[mem slot]|e]; [|reflexivity].
  cbv beta iota zeta delta [bind gen_emap_size gen_maskreg_init snd].
  destruct (emap_of slot) as [d f]. cbv beta iota zeta.
  unfold evmon_trace, maskreg, evmon_members, evmon_stores, mm_add, C.reg_size.
  cbn [fst mt_addr_width mt_data_width mt_alignment mt_adds app pi_zof].
  struct_eq.
Qed.
Print Assumptions tie_evmon_init.

(* those calls, replayed on the memory-map model, are the model's build_map *)
Theorem tie_evmon_build_map : forall n dw al,
  replay (evmon_trace n (VInt dw) (VInt al)) = C.build_map n dw al.
Proof.
  intros n dw al. unfold replay, C.build_map, evmon_trace, C.addr_width.
  cbn [mt_addr_width mt_data_width mt_alignment mt_adds pi_zof].
  destruct (MM.new_map _ _ _) as [m0|e]; cbn [bind]; [|reflexivity].
  cbn [replay_adds ac_res ac_name ac_size ac_addr ac_alignment rawname_of map].
  change (res_id (XRoot "_enable")) with C.id_enable. change (res_id (XRoot "_pending")) with C.id_pending.
  change (atom_of "enable") with C.atom_enable. change (atom_of "pending") with C.atom_pending.
  destruct (MM.add_resource m0 _ _ _ _ _ _) as [[m1 ?]|e]; cbn [bind]; [|reflexivity].
  destruct (MM.add_resource m1 _ _ _ _ _ _) as [[m2 ?]|e]; reflexivity.
Qed.
Print Assumptions tie_evmon_build_map.

(* the trigger= codes of Model/CsrEvent.v: 0 level, 1 rise, 2 fall, anything else invalid *)
Definition trig_code (k : Z) : pyval Trigger :=
  if k =? 0 then VStr "level" else if k =? 1 then VStr "rise" else if k =? 2 then VStr "fall" else VStr "sideways".

(* against CsrEvent.construct, for an event map with as many sources as the model's mode list: every refusal of
   the generated constructor is the same refusal of the model's; when it accepts, the model's three checks pass
   and the model's memory map is the replay of the recorded calls with n = the number of sources *)
Theorem tie_evmon_checks : forall m ms k dw al,
  List.length (E.em_srcs m) = List.length ms ->
  let p := {| C.p_modes := ms; C.p_dw := dw; C.p_al := al; C.p_trigger := k |} in
  match gen_evmon_init (PMap (rep m)) (trig_code k) dw al with
  | Err e => C.construct p = Err e
  | Ok (mon, en, pe, tr, _, _) =>
      MM.posint dw = true /\ MM.nonneg al = true /\ (0 <=? k) && (k <? 3) = true /\
      snd mon = PMap (rep (E.em_freeze m)) /\
      en = maskreg (Z.of_nat (List.length ms)) /\ pe = maskreg (Z.of_nat (List.length ms)) /\
      replay tr = C.build_map (Z.of_nat (List.length ms)) (MM.zof dw) (MM.zof al)
  end.
Proof.
  intros m ms k dw al Hlen p. rewrite tie_evmon_init. unfold C.construct, p. cbn [C.p_dw C.p_al C.p_trigger C.p_modes].
  destruct (MM.posint dw) eqn:Hdw; cbn [negb check bind]; [|reflexivity].
  destruct (MM.nonneg al) eqn:Hal; cbn [negb check bind]; [|reflexivity].
  rewrite tie_monitor_init.
  assert (Hk : mode_arg (trig_code k) = None /\ (0 <=? k) && (k <? 3) = false \/
               (exists md, mode_arg (trig_code k) = Some md) /\ (0 <=? k) && (k <? 3) = true).
  { unfold trig_code. destruct (Z.eqb_spec k 0) as [->|]; [right; split; [eexists|]; reflexivity|].
    destruct (Z.eqb_spec k 1) as [->|]; [right; split; [eexists|]; reflexivity|].
    destruct (Z.eqb_spec k 2) as [->|]; [right; split; [eexists|]; reflexivity|].
    left. split; [reflexivity | lia]. }
  destruct Hk as [[-> ->]|[[md ->] ->]]; cbn [check bind]; [reflexivity|].
  cbv zeta. cbn [snd emap_of fst rep]. unfold dict_len. rewrite map_length, Hlen.
  destruct dw as [dwz| |]; try discriminate. destruct al as [alz| |]; try discriminate.
  repeat (split; [reflexivity|]). apply tie_evmon_build_map.
Qed.
Print Assumptions tie_evmon_checks.
