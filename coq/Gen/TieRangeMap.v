(* Tie lemmas, third stage: _RangeMap.overlaps / get / insert regenerated from /repo's source by
   harness/translate3.py (RangeMap.v, rewritten on every run) over the three parallel lists the Python class
   keeps, against Model.MemoryMap's rm_overlaps / rm_get / rm_insert over one list of entries
   (K := entry; starts and stops are the projections, which tie_rm_insert shows are kept in step). *)
From Coq Require Import ZArith List Bool Arith Lia.
From Soc Require Import Lib.PyList Lib.Res Model.MemoryMap.
From SocGen Require Import RangeMap.
Import ListNotations.
Open Scope Z_scope.

Theorem tie_rm_overlaps : forall l x,
  gen_rm_overlaps entry e_start e_stop l (starts l) (stops l) x = rm_overlaps l (e_start x) (e_stop x).
Proof. reflexivity. Qed.
Print Assumptions tie_rm_overlaps.

Theorem tie_rm_get : forall l p,
  gen_rm_get entry e_start e_stop l (starts l) (stops l) p = rm_get l p.
Proof.
  intros l p. unfold gen_rm_get, rm_get.
  destruct (nth_error l (bisect_right (stops l) p)) as [x|] eqn:E.
  - assert (Hlt : (bisect_right (stops l) p < length l)%nat) by (apply nth_error_Some; congruence).
    apply Nat.ltb_lt in Hlt. rewrite Hlt. rewrite Z.geb_leb. reflexivity.
  - destruct (Nat.ltb _ _); reflexivity.
Qed.
Print Assumptions tie_rm_get.

Lemma map_insert_at {A B} (f : A -> B) n x (l : list A) :
  map f (insert_at n x l) = insert_at n (f x) (map f l).
Proof.
  revert l; induction n as [|n IH]; intros l; destruct l as [|y l]; cbn [insert_at map]; try reflexivity.
  rewrite IH. reflexivity.
Qed.

Theorem tie_rm_insert : forall l x,
  match gen_rm_insert entry e_start e_stop l (starts l) (stops l) x with
  | Ok (k', s', t') => rm_insert l x = Ok k' /\ s' = starts k' /\ t' = stops k'
  | Err e => rm_insert l x = Err e
  end.
Proof.
  intros l x. unfold gen_rm_insert, rm_insert. rewrite tie_rm_overlaps.
  destruct (rm_overlaps l (e_start x) (e_stop x)) as [|o os]; cbn [is_nil negb]; [|reflexivity].
  destruct (Nat.eqb (bisect_right (starts l) (e_start x)) (bisect_left (stops l) (e_stop x))) eqn:E;
    cbn [negb]; [|reflexivity].
  apply Nat.eqb_eq in E. split; [reflexivity|]. unfold starts, stops. rewrite !map_insert_at.
  split; [reflexivity|]. fold (starts l) (stops l). rewrite E. reflexivity.
Qed.
Print Assumptions tie_rm_insert.
