(* Tie lemmas, second stage: whole methods of memory.py regenerated from /repo's source by
   harness/translate2.py (Methods.v, rewritten on every run) agree with the hand-written model
   Model/MemoryMap.v for ALL arguments, including None and non-integer ones. *)
From Coq Require Import ZArith List Bool Lia.
From Soc Require Import Lib.Bits Lib.Res Model.MemoryMap.
From SocGen Require Import Kernels Methods.
Import ListNotations.
Open Scope Z_scope.

Lemma gen_align_up_eq : gen_align_up = align_up.
Proof. reflexivity. Qed.

(* MemoryMap.align_to: same refusals, same new cursor, same return value *)
Theorem tie_align_to : forall m a,
  align_to m a = match gen_align_to (m_al m) (m_next m) a with
                 | Ok (n, r) => Ok (set_next m n, r)
                 | Err e => Err e
                 end.
Proof.
  intros m a. unfold align_to, gen_align_to. rewrite gen_align_up_eq.
  destruct a as [z| |]; cbn [nonneg is_int Methods.zof MemoryMap.zof negb orb check bind]; try reflexivity.
  destruct (0 <=? z) eqn:E1; destruct (z <? 0) eqn:E2; try lia; reflexivity.
Qed.
Print Assumptions tie_align_to.

Definition model_overlaps (m : mmap) : Z -> Z -> Z -> bool :=
  fun s e _ => match rm_overlaps (m_ranges m) s e with [] => false | _ :: _ => true end.

(* MemoryMap._compute_addr_range: same refusals in the same order, same range *)
Theorem tie_compute_addr_range : forall m addr size step al,
  compute_addr_range m addr size al =
  match gen_compute_addr_range (m_al m) (m_aw m) (m_next m) (model_overlaps m) addr size step al with
  | Ok (s, e, _) => Ok (s, e)
  | Err x => Err x
  end.
Proof.
  intros m addr size step al. unfold compute_addr_range, gen_compute_addr_range, model_overlaps.
  rewrite gen_align_up_eq.
  destruct addr as [a| |]; cbn [nonneg is_none is_int Methods.zof MemoryMap.zof negb orb check bind];
    try reflexivity.
  - (* explicit integer address *)
    destruct (0 <=? a) eqn:E1; destruct (a <? 0) eqn:E2; try lia; cbn [check bind]; try reflexivity.
    destruct (a mod Z.shiftl 1 (m_al m) =? 0) eqn:E3; cbn [negb check bind]; try reflexivity.
    destruct size as [sz| |]; cbn [nonneg is_int Methods.zof MemoryMap.zof negb orb check bind]; try reflexivity.
    destruct (0 <=? sz) eqn:E4; destruct (sz <? 0) eqn:E5; try lia; cbn [check bind]; try reflexivity.
    destruct ((a >? Z.shiftl 1 (m_aw m)) || (a + align_up (Z.max sz 1) al >? Z.shiftl 1 (m_aw m)));
      cbn [negb check bind]; try reflexivity.
    destruct (rm_overlaps (m_ranges m) a (a + align_up (Z.max sz 1) al)); reflexivity.
  - (* implicit address *)
    destruct size as [sz| |]; cbn [nonneg is_int Methods.zof MemoryMap.zof negb orb check bind]; try reflexivity.
    destruct (0 <=? sz) eqn:E4; destruct (sz <? 0) eqn:E5; try lia; cbn [check bind]; try reflexivity.
    set (a := align_up (m_next m) al).
    destruct ((a >? Z.shiftl 1 (m_aw m)) || (a + align_up (Z.max sz 1) al >? Z.shiftl 1 (m_aw m)));
      cbn [negb check bind]; try reflexivity.
    destruct (rm_overlaps (m_ranges m) a (a + align_up (Z.max sz 1) al)); reflexivity.
Qed.
Print Assumptions tie_compute_addr_range.

Definition truthy (sparse : option bool) : bool := match sparse with Some true => true | _ => false end.

(* MemoryMap.add_window: whenever the model accepts, ratio / size / alignment are what the regenerated
   statements compute, and the range is what _compute_addr_range returns for them *)
Theorem tie_add_window_arith : forall m wid w nm addr sparse m' s e r,
  add_window m wid w nm addr sparse = Ok (m', (s, e, r)) ->
  exists size al,
    gen_window_arith (m_dw m) (m_al m) (m_dw w) (m_aw w) (m_al w) (truthy sparse) = Ok (r, size, al) /\
    compute_addr_range m addr (VInt size) al = Ok (s, e).
Proof.
  intros m wid w nm addr sparse m' s e r H. unfold add_window in H.
  repeat match type of H with
         | bind (check ?b ?x) _ = Ok _ => destruct b eqn:?; cbn [check bind] in H; [|discriminate]
         | bind (if ?b then _ else _) _ = Ok _ => destruct b eqn:?
         | bind (bind (check ?b ?x) _) _ = Ok _ => destruct b eqn:?; cbn [check bind] in H; [|discriminate]
         | bind (Ok _) _ = Ok _ => cbn [bind] in H
         | bind (match ?n with None => _ | Some _ => _ end) _ = Ok _ => destruct n; cbn [bind] in H
         | bind (bind (mk_name ?r) _) _ = Ok _ => destruct (mk_name r); cbn [bind] in H; [|discriminate]
         | bind (is_available ?a ?b) _ = Ok _ => destruct (is_available a b); cbn [bind] in H; [|discriminate]
         end.
  all: match type of H with
       | bind (compute_addr_range ?m ?a ?sz ?al) _ = Ok _ =>
           destruct (compute_addr_range m a sz al) as [[s0 e0]|] eqn:Hc; cbn [bind] in H; [|discriminate]
       end.
  all: match type of H with
       | bind (rm_insert ?l ?x) _ = Ok _ => destruct (rm_insert l x); cbn [bind] in H; [|discriminate]
       end.
  all: destruct m; injection H as <- <- <- <-.
  all: unfold gen_window_arith, truthy; cbn [m_dw m_al m_aw] in *.
  all: destruct sparse as [[|]|]; cbn [negb bind] in *.
  all: repeat match goal with
              | Hx : negb ?b = true |- _ => apply negb_true_iff in Hx
              | Hx : (?a =? ?b) = true |- context [negb (?a =? ?b)] => rewrite Hx
              | Hx : (?a >? ?b) = false |- context [?a >? ?b] => rewrite Hx
              end; cbn [negb].
  all: eexists; eexists; split; [reflexivity|exact Hc].
Qed.
Print Assumptions tie_add_window_arith.

(* MemoryMap.add_resource: the effective alignment is what the regenerated statement computes *)
Theorem tie_add_resource_alignment : forall m id is_comp nm size addr alignment m' s e,
  add_resource m id is_comp nm size addr alignment = Ok (m', (s, e)) ->
  exists al, gen_resource_alignment (m_al m) alignment = Ok al /\ compute_addr_range m addr size al = Ok (s, e).
Proof.
  intros m id is_comp nm size addr alignment m' s e H. unfold add_resource in H.
  repeat match type of H with
         | bind (check ?b ?x) _ = Ok _ => destruct b eqn:?; cbn [check bind] in H; [|discriminate]
         | bind (mk_name ?r) _ = Ok _ => destruct (mk_name r); cbn [bind] in H; [|discriminate]
         | bind (is_available ?a ?b) _ = Ok _ => destruct (is_available a b); cbn [bind] in H; [|discriminate]
         end.
  destruct alignment as [av| |]; cbn [nonneg check bind] in H.
  2: { destruct (compute_addr_range m addr size (m_al m)) as [[s0 e0]|] eqn:Hc; cbn [bind] in H; [|discriminate].
       destruct (rm_insert _ _); cbn [bind] in H; [|discriminate]. destruct m; injection H as <- <- <-.
       exists (m_al (MM aw dw al ranges ress wins names next frozen)). split; [reflexivity|exact Hc]. }
  2: discriminate.
  destruct (0 <=? av) eqn:E1; cbn [check bind] in H; [|discriminate].
  destruct (compute_addr_range m addr size (Z.max (MemoryMap.zof (VInt av)) (m_al m))) as [[s0 e0]|] eqn:Hc;
    cbn [bind] in H; [|discriminate].
  destruct (rm_insert _ _); cbn [bind] in H; [|discriminate]. destruct m; injection H as <- <- <-.
  eexists. split; [|exact Hc]. unfold gen_resource_alignment.
  cbn [is_none is_int Methods.zof negb orb bind]. replace (av <? 0) with false by lia. reflexivity.
Qed.
Print Assumptions tie_add_resource_alignment.
