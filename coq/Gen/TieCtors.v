(* Tie lemmas for constructor arithmetic regenerated from /repo's source (Ctors.v, rewritten on every run):
   WishboneCSRBridge.__init__ against Model/WbCsrBridge.v, csr.EventMonitor.__init__ against Model/CsrEvent.v. *)
From Coq Require Import ZArith List Bool Lia.
From Soc Require Import Lib.Bits Lib.Res Model.WbCsrBridge Model.CsrEvent.
From SocGen Require Import Ctors.
Open Scope Z_scope.

(* the accepted bridge publishes exactly the widths the source computes *)
Theorem tie_wbcsr_construct : forall k g, WbCsrBridge.construct k = Ok g ->
  let dw := match k_dw k with None => k_cdw k | Some d => d end in
  g_wb_dw g = dw /\ g_gran g = k_cdw k /\ g_mm_aw g = k_caw k /\ g_mm_dw g = k_cdw k /\
  2 ^ g_r g = 2 ^ xlog2 (gen_wbcsr_ratio dw (k_cdw k)) /\
  g_wb_aw g = gen_wbcsr_addr_width (k_caw k) (gen_wbcsr_ratio dw (k_cdw k)).
Proof.
  intros k g H dw. unfold WbCsrBridge.construct in H.
  repeat match type of H with
         | (if ?b then Err _ else _) = Ok _ => destruct b eqn:?; [discriminate|]
         | match ?x with Some _ => _ | None => Err _ end = Ok _ => destruct x eqn:?; [|discriminate]
         end.
  injection H as <-. cbn [g_wb_dw g_gran g_mm_aw g_mm_dw g_r g_wb_aw].
  fold dw in Heqo. unfold gen_wbcsr_addr_width, gen_wbcsr_ratio, xlog2.
  unfold WbCsrBridge.exact_log2 in Heqo.
  destruct ((dw / k_cdw k <=? 0) || negb (Z.land (dw / k_cdw k) (dw / k_cdw k - 1) =? 0)); [discriminate|].
  injection Heqo as <-. unfold bit_length. fold dw. repeat split; reflexivity.
Qed.
Print Assumptions tie_wbcsr_construct.

Theorem tie_evmon_arith : forall n dw al,
  CsrEvent.reg_size n dw = gen_evmon_reg_size n dw /\
  CsrEvent.addr_width n dw al = gen_evmon_addr_width (gen_evmon_reg_size n dw) al.
Proof.
  (* arithmetic rearrangements of the source (1 + x vs x + 1, max operands swapped) must not matter *)
  intros. unfold CsrEvent.addr_width, CsrEvent.reg_size, gen_evmon_addr_width, gen_evmon_reg_size.
  split; [f_equal; lia | lia].
Qed.
Print Assumptions tie_evmon_arith.
