(* Tie lemmas: the kernels regenerated from /repo's source (Kernels.v, rewritten on every run) are equal
   to the corresponding model functions for ALL inputs.  Compiled per run against the fresh Kernels.v under
   the logical name SocGen; the committed copy of Kernels.v under Soc.Gen is only what the full build uses. *)
From Coq Require Import ZArith List Bool Lia.
From Soc Require Import Lib.Bits Lib.Res Model.MemoryMap Model.Mux.
From SocGen Require Import Kernels.
Import ListNotations.
Open Scope Z_scope.

(* MemoryMap._align_up  =  Model.MemoryMap.align_up *)
Theorem tie_align_up : forall v a, gen_align_up v a = align_up v a.
Proof. intros. unfold gen_align_up, align_up. reflexivity. Qed.
Print Assumptions tie_align_up.

(* _Shadow.decode_address  =  Model.Mux.decode, for every shadow size and register range *)
Theorem tie_shadow_decode : forall S r a,
  gen_shadow_decode S (r_start r) (r_stop r) a = decode S r a.
Proof. intros. unfold gen_shadow_decode, decode, reg_size, reg_len. reflexivity. Qed.
Print Assumptions tie_shadow_decode.

(* _Shadow.encode_offset  =  Model.Mux.encode *)
Theorem tie_shadow_encode : forall r o,
  gen_shadow_encode (r_start r) (r_stop r) o = encode r o.
Proof. intros. unfold gen_shadow_encode, encode, reg_size, reg_len. reflexivity. Qed.
Print Assumptions tie_shadow_encode.

(* the start / end / width arguments of the ResourceInfo that MemoryMap._translate returns  =  what Model.MemoryMap.translate puts into the
   ResourceInfo it returns *)
Theorem tie_translate : forall i wdw wname wstart wstep i',
  translate i wdw wname wstart wstep = Ok i' ->
  i_start i' = gen_translate_start (i_start i) (i_end i) (i_width i) wstart wstep /\
  i_end i' = gen_translate_end (i_start i) (i_end i) (i_width i) wstart wstep /\
  i_width i' = gen_translate_width (i_start i) (i_end i) (i_width i) wstart wstep /\
  i_res i' = i_res i.
Proof.
  intros i wdw wname wstart wstep i' H. unfold translate in H.
  unfold gen_translate_start, gen_translate_end, gen_translate_width.
  repeat match type of H with
         | bind (check ?b ?e) _ = Ok _ => destruct b; simpl in H; [|discriminate]
         end.
  unfold mk_info in H.
  repeat match type of H with
         | bind (check ?b ?e) _ = Ok _ => destruct b; simpl in H; [|discriminate]
         end.
  injection H as <-. simpl. repeat split; try reflexivity; lia.
Qed.
Print Assumptions tie_translate.
