(* Tie lemmas, stage `builderrest`: class csr.Builder in full and csr.Bridge.__init__ (amaranth_soc/csr/reg.py),
   regenerated from /repo's source by harness/translate12.py (BuilderRestGen.v, rewritten on every run), against
   Model/Builder.v on top of Model/MemoryMap.v.

   Representation.  The generated functions work on the record `Builder_st` of the six attributes __init__ assigns;
   a model builder b is that record through `emb` (an injection): the registers dict is the association list
   id(reg) |-> (OReg id width, name parts as raw tuple items, offset as VInt / VNone) in insertion order, the scope
   stack the list of raw items.  Every lemma has the form  gen_f (emb b) args = emb-image of (model_f b args'),
   where args' is the model's classification of the Python arguments (rawstr_of: a str or anything else, None
   included; regarg_of: a Register or anything else): plain equality of results, refusals (exception type, order)
   and the object state left behind by a refusal included, for ALL arguments.  Since __init__ produces an emb-image
   and every method maps emb-images to emb-images, these are all the states the generated code can reach.

   What is NOT a plain equality, and why:
     - exit of a Cluster / Index block (tie_cluster_exit, tie_index_exit): the model's exit_scope takes the validated
       name part p the block was entered with; the code compares the popped item with the block's argument again.
       The lemmas therefore assume  scope_part k = Some p  (the block was entered: the exit code never runs
       otherwise, with_ctx).  Under it: equality, including IndexError on an empty stack and the AssertionError
       that leaves the item popped.
     - the model has no function for a whole `with` block whose body raises (its histories catch every exception
       per call, assumption of C17).  tie_with_restores_stack states the requirement directly on the generated
       code: for ANY state, argument, and body that leaves the stack as it found it - whether the body returns or
       raises -, the stack after the block is the stack before it.
     - Bridge.__init__ has no model function (Model/Elab.v models the same checks inside Multiplexer, mux_check).
       tie_bridge_init proves the generated constructor equal to bridge_init_spec below (hand-written in the code's
       order, parametric in the external classes), tie_bridge_refusals relates its refusals to Elab.mux_check, and
       tie_bridge_accepts_builder_map instantiates it with the memory-map model: the map a reachable builder's
       as_memory_map returns passes all three checks and is handed on unchanged.
     - ZeroDivisionError is not represented (translator docstring): `//` and `%` are Z.div / Z.modulo on both sides.

   The proofs do not mention generated variable names: they unfold the generated definition, compute the record
   projections, and split on every comparison / if / match that remains, closing the leaves by reflexivity, congruence
   or lia; the loop of as_memory_map is handled for an arbitrary body satisfying body_ok (Proofs/BuilderRestTie.v). *)
From Coq Require Import ZArith List Bool Lia ZifyBool String.
From Soc Require Import Lib.Bits Lib.Res Lib.PyLoop Lib.PyBuilder Model.MemoryMap Model.Builder Model.BuilderSpec
                        Proofs.BuilderRestTie.
From Soc Require Model.Elab Proofs.BuilderMap Proofs.BuilderInv.
From SocGen Require Import BuilderRestGen.
Import ListNotations.
Open Scope Z_scope.

Definition emb (b : builder) : Builder_st :=
  mk_Builder (bd_aw b) (bd_dw b) (bd_gran b) (map emb_reg (bd_regs b)) (map raw_of_part (bd_stack b)) (bd_frozen b).

(* what a method leaves behind: the new state and the result, or the old state and the exception *)
Definition lift {A} (b : builder) (r : res builder) (v : A) : Builder_st * res A :=
  match r with Ok b' => (emb b', Ok v) | Err e => (emb b, Err e) end.

(* reduce the control skeleton: monadic binds, checks, the classification of arguments *)
Ltac red_ctl := cbn [negb andb orb bind bind_st bind_call check fst snd is_int is_none int_of posint nonneg zof pyoff
                     str_is_none str_is_str str_truthy atom_truthy is_register obj_id elem_width is_some
                     rawstr_of regarg_of valid_str atom_of part_of_str part_of_int].

(* case analysis on every `if` that is left (conditions that mention bound variables are skipped by `context`), then
   booleans and arithmetic by lia *)
Ltac split_ifs :=
  repeat (match goal with
          | |- context [if ?c then _ else _] => destruct c eqn:?
          end; red_ctl);
  try reflexivity; try congruence; try (exfalso; lia).

Ltac proj := unfold emb; cbn [Builder_addr_width Builder_data_width Builder_granularity Builder_registers Builder_scope_stack
                  Builder_frozen gen_Builder_addr_width gen_Builder_data_width gen_Builder_granularity
                  bd_aw bd_dw bd_gran bd_regs bd_stack bd_frozen set_regs set_stack bfreeze].

(* put back what the case analysis learnt about atoms that reappear after unfolding *)
Ltac use_eqs :=
  repeat match goal with
         | H : ?x = true |- context [?x] => rewrite H
         | H : ?x = false |- context [?x] => rewrite H
         end.

Ltac arith_eq := repeat (reflexivity || lia || f_equal).

(* ------------------------------------------------------------------ __init__, properties, freeze *)

Theorem tie_builder_init : forall aw dw g,
  gen_Builder_init aw dw g = match new_builder aw dw g with Ok b => Ok (emb b) | Err e => Err e end.
Proof.
  intros aw dw g. unfold gen_Builder_init, new_builder, check.
  destruct aw as [a| |], dw as [d| |], g as [n| |]; red_ctl; split_ifs.
Qed.
Print Assumptions tie_builder_init.

(* the default the callers of Builder(...) get for granularity *)
Theorem tie_builder_init_default : gen_Builder_init_default_granularity = VInt 8.
Proof. reflexivity. Qed.
Print Assumptions tie_builder_init_default.

Theorem tie_builder_properties : forall b,
  gen_Builder_addr_width (emb b) = bd_aw b /\ gen_Builder_data_width (emb b) = bd_dw b /\
  gen_Builder_granularity (emb b) = bd_gran b.
Proof. intros b. repeat split. Qed.
Print Assumptions tie_builder_properties.

Theorem tie_builder_freeze : forall b, gen_Builder_freeze (emb b) = (emb (bfreeze b), Ok tt).
Proof. intros b. reflexivity. Qed.
Print Assumptions tie_builder_freeze.

(* ------------------------------------------------------------------ add: the whole method, names and identity included *)

Lemma has_reg_emb b id : od_has (map emb_reg (bd_regs b)) id = has_reg b id.
Proof. apply od_has_emb. Qed.

(* an accepted add: the dict gets one more item, the represented register *)
Ltac finish_add :=
  proj; use_eqs;
  rewrite od_set_fresh by (rewrite od_has_emb; assumption);
  rewrite !map_app; cbn [map]; unfold emb_reg; cbn [b_id b_width b_name b_off pyoff];
  rewrite ?map_app; cbn [map raw_of_part]; arith_eq.

Theorem tie_builder_add_full : forall b nm r off,
  gen_Builder_add (emb b) nm r off = lift b (badd b (rawstr_of nm) (regarg_of r) off) r.
Proof.
  intros b nm r off. unfold gen_Builder_add, badd, lift, check.
  destruct r as [id w|id]; red_ctl; [|reflexivity].
  proj. rewrite ?has_reg_emb.
  destruct nm as [a| |], off as [z| |]; red_ctl; split_ifs; finish_add.
Qed.
Print Assumptions tie_builder_add_full.

(* the registered name: the scope stack as it is at the call, then the name; keyed by the identity of reg *)
Theorem tie_builder_add_name : forall b a id w off s',
  gen_Builder_add (emb b) (YStr a) (OReg id w) off = (s', Ok (OReg id w)) ->
  exists o, Builder_registers s' =
            Builder_registers (emb b) ++ [(id, (OReg id w, Builder_scope_stack (emb b) ++ [RStr a], o))] /\
            od_has (Builder_registers (emb b)) id = false.
Proof.
  intros b a id w off s' H. rewrite tie_builder_add_full in H. unfold lift in H.
  destruct (badd b (rawstr_of (YStr a)) (regarg_of (OReg id w)) off) as [b'|e] eqn:E; [|discriminate].
  injection H as <-. unfold badd in E. cbn [regarg_of rawstr_of] in E.
  destruct (negb (bd_frozen b)); cbn [check bind] in E; [|discriminate].
  destruct (valid_str (SStr a)); cbn [check bind] in E; [|discriminate].
  match type of E with bind ?x _ = _ => destruct x as [o|] eqn:Eo end; cbn [bind] in E; [|discriminate].
  destruct (has_reg b id) eqn:Hh; cbn [negb check bind] in E; [discriminate|].
  injection E as <-. exists (pyoff o). proj. rewrite has_reg_emb. split; [|exact Hh].
  rewrite map_app. cbn [map]. unfold emb_reg. cbn [b_id b_width b_name b_off]. rewrite map_app. reflexivity.
Qed.
Print Assumptions tie_builder_add_name.

(* ------------------------------------------------------------------ Cluster / Index *)

Theorem tie_cluster_enter : forall b nm,
  gen_Builder_Cluster_enter (emb b) nm =
  match enter_scope b (KCluster (rawstr_of nm)) with
  | Ok (b', _) => (emb b', Ok tt)
  | Err e => (emb b, Err e)
  end.
Proof.
  intros b nm. unfold gen_Builder_Cluster_enter, enter_scope, check.
  destruct nm as [a| |]; red_ctl; split_ifs; proj; rewrite ?map_app; reflexivity.
Qed.
Print Assumptions tie_cluster_enter.

Theorem tie_index_enter : forall b idx,
  gen_Builder_Index_enter (emb b) idx =
  match enter_scope b (KIndex idx) with
  | Ok (b', _) => (emb b', Ok tt)
  | Err e => (emb b, Err e)
  end.
Proof.
  intros b idx. unfold gen_Builder_Index_enter, enter_scope, check.
  destruct idx as [z| |]; red_ctl; split_ifs; proj; rewrite ?map_app; reflexivity.
Qed.
Print Assumptions tie_index_enter.

(* the finally clause on a represented stack, the block having been entered with the part p (whose raw form is x) *)
Ltac exit_tac b p x :=
  proj; rewrite (py_pop_emb (bd_stack b) p); unfold exit_scope;
  let Hs := fresh "Hs" in
  destruct (bd_stack b) as [|? ?] eqn:Hs; red_ctl; [proj; rewrite ?Hs; reflexivity|];
  change x with (raw_of_part p); rewrite ?rawpart_eq_emb; try rewrite (part_eqb_sym p); red_ctl;
  split_ifs; proj; rewrite ?Hs; reflexivity.

Theorem tie_cluster_exit : forall b nm p, scope_part (KCluster (rawstr_of nm)) = Some p ->
  gen_Builder_Cluster_exit (emb b) nm = let '(b', r) := exit_scope b p in (emb b', r).
Proof.
  intros b nm p Hp. cbn [scope_part] in Hp.
  destruct nm as [a| |]; cbn [rawstr_of valid_str] in Hp; try discriminate.
  destruct (negb (a =? 0)); [|discriminate]. injection Hp as <-. cbn [atom_of].
  unfold gen_Builder_Cluster_exit. red_ctl. exit_tac b (PStr a) (RStr a).
Qed.
Print Assumptions tie_cluster_exit.

Theorem tie_index_exit : forall b idx p, scope_part (KIndex idx) = Some p ->
  gen_Builder_Index_exit (emb b) idx = let '(b', r) := exit_scope b p in (emb b', r).
Proof.
  intros b idx p Hp. cbn [scope_part] in Hp.
  destruct idx as [z| |]; cbn [nonneg] in Hp; try discriminate.
  destruct (0 <=? z); [|discriminate]. injection Hp as <-. cbn [zof].
  unfold gen_Builder_Index_exit. red_ctl. exit_tac b (PInt z) (RInt z).
Qed.
Print Assumptions tie_index_exit.

(* a `with` block leaves the scope stack as it found it, whatever its body does - returns or raises -, as long as
   the body itself leaves the stack as it found it; for every state, not only represented ones *)
Lemma exit_pops_cluster s x nm : Builder_scope_stack (fst (gen_Builder_Cluster_exit
     (mk_Builder (Builder_addr_width s) (Builder_data_width s) (Builder_granularity s) (Builder_registers s)
                 (Builder_scope_stack s ++ [x]) (Builder_frozen s)) nm)) = Builder_scope_stack s.
Proof.
  unfold gen_Builder_Cluster_exit. proj. rewrite py_pop_snoc. cbn [bind_st].
  match goal with |- context [rawpart_eq ?a ?b] => destruct (rawpart_eq a b) as [[|]|] end; reflexivity.
Qed.

Lemma exit_pops_index s x idx : Builder_scope_stack (fst (gen_Builder_Index_exit
     (mk_Builder (Builder_addr_width s) (Builder_data_width s) (Builder_granularity s) (Builder_registers s)
                 (Builder_scope_stack s ++ [x]) (Builder_frozen s)) idx)) = Builder_scope_stack s.
Proof.
  unfold gen_Builder_Index_exit. proj. rewrite py_pop_snoc. cbn [bind_st].
  match goal with |- context [rawpart_eq ?a ?b] => destruct (rawpart_eq a b) as [[|]|] end; reflexivity.
Qed.

Definition keeps_stack {A} (body : Builder_st -> Builder_st * res A) : Prop :=
  forall s, Builder_scope_stack (fst (body s)) = Builder_scope_stack s.

(* the exit code only looks at the stack *)
Lemma cluster_exit_stack_only s1 s2 nm : Builder_scope_stack s1 = Builder_scope_stack s2 ->
  Builder_scope_stack (fst (gen_Builder_Cluster_exit s1 nm)) = Builder_scope_stack (fst (gen_Builder_Cluster_exit s2 nm)).
Proof.
  intros H. unfold gen_Builder_Cluster_exit. rewrite H.
  destruct (py_pop (Builder_scope_stack s2)) as [[y rest]|e]; cbn [bind_st fst]; [|exact H].
  match goal with |- context [rawpart_eq ?a ?b] => destruct (rawpart_eq a b) as [[|]|] end; reflexivity.
Qed.

Lemma index_exit_stack_only s1 s2 idx : Builder_scope_stack s1 = Builder_scope_stack s2 ->
  Builder_scope_stack (fst (gen_Builder_Index_exit s1 idx)) = Builder_scope_stack (fst (gen_Builder_Index_exit s2 idx)).
Proof.
  intros H. unfold gen_Builder_Index_exit. rewrite H.
  destruct (py_pop (Builder_scope_stack s2)) as [[y rest]|e]; cbn [bind_st fst]; [|exact H].
  match goal with |- context [rawpart_eq ?a ?b] => destruct (rawpart_eq a b) as [[|]|] end; reflexivity.
Qed.

(* entering either refuses and changes nothing, or pushes exactly one item *)
Lemma cluster_enter_cases s nm :
  (exists e, gen_Builder_Cluster_enter s nm = (s, Err e)) \/
  (exists x, gen_Builder_Cluster_enter s nm =
             (mk_Builder (Builder_addr_width s) (Builder_data_width s) (Builder_granularity s) (Builder_registers s)
                         (Builder_scope_stack s ++ [x]) (Builder_frozen s), Ok tt)).
Proof.
  unfold gen_Builder_Cluster_enter.
  destruct nm as [a| |]; red_ctl;
    repeat (match goal with |- context [if ?c then _ else _] => destruct c end; red_ctl);
    first [left; eexists; reflexivity | right; eexists; reflexivity].
Qed.

Lemma index_enter_cases s idx :
  (exists e, gen_Builder_Index_enter s idx = (s, Err e)) \/
  (exists x, gen_Builder_Index_enter s idx =
             (mk_Builder (Builder_addr_width s) (Builder_data_width s) (Builder_granularity s) (Builder_registers s)
                         (Builder_scope_stack s ++ [x]) (Builder_frozen s), Ok tt)).
Proof.
  unfold gen_Builder_Index_enter.
  destruct idx as [z| |]; red_ctl;
    repeat (match goal with |- context [if ?c then _ else _] => destruct c end; red_ctl);
    first [left; eexists; reflexivity | right; eexists; reflexivity].
Qed.

Theorem tie_with_restores_stack : forall (A : Type) (s : Builder_st) (body : Builder_st -> Builder_st * res A),
  keeps_stack body ->
  (forall nm, Builder_scope_stack (fst (gen_Builder_Cluster_with s nm body)) = Builder_scope_stack s) /\
  (forall idx, Builder_scope_stack (fst (gen_Builder_Index_with s idx body)) = Builder_scope_stack s).
Proof.
  intros A s body Hbody. split.
  - intros nm. unfold gen_Builder_Cluster_with, with_ctx.
    destruct (cluster_enter_cases s nm) as [[e ->]|[x ->]]; [reflexivity|].
    match goal with |- context [body ?s1] => pose proof (Hbody s1) as Hb; destruct (body s1) as [s2 r] end.
    cbn [fst] in Hb.
    match goal with |- context [gen_Builder_Cluster_exit s2 nm] =>
      pose proof (cluster_exit_stack_only s2 _ nm Hb) as He; destruct (gen_Builder_Cluster_exit s2 nm) as [s3 xr] end.
    cbn [fst] in *. rewrite He. apply exit_pops_cluster.
  - intros idx. unfold gen_Builder_Index_with, with_ctx.
    destruct (index_enter_cases s idx) as [[e ->]|[x ->]]; [reflexivity|].
    match goal with |- context [body ?s1] => pose proof (Hbody s1) as Hb; destruct (body s1) as [s2 r] end.
    cbn [fst] in Hb.
    match goal with |- context [gen_Builder_Index_exit s2 idx] =>
      pose proof (index_exit_stack_only s2 _ idx Hb) as He; destruct (gen_Builder_Index_exit s2 idx) as [s3 xr] end.
    cbn [fst] in *. rewrite He. apply exit_pops_index.
Qed.
Print Assumptions tie_with_restores_stack.

(* and the block's outcome: the body's, unless entering refused or the exit code raised *)
Theorem tie_with_outcome : forall (A : Type) b nm p (body : Builder_st -> Builder_st * res A),
  scope_part (KCluster (rawstr_of nm)) = Some p ->
  gen_Builder_Cluster_with (emb b) nm body =
  let '(s2, r) := body (emb (set_stack b (bd_stack b ++ [p]))) in
  let '(s3, x) := gen_Builder_Cluster_exit s2 nm in
  (s3, match x with Err e => Err e | Ok _ => r end).
Proof.
  intros A b nm p body Hp. unfold gen_Builder_Cluster_with, with_ctx. rewrite tie_cluster_enter.
  cbn [scope_part] in Hp. unfold enter_scope.
  destruct (valid_str (rawstr_of nm)); [|discriminate]. injection Hp as <-. cbn [check bind]. reflexivity.
Qed.
Print Assumptions tie_with_outcome.

(* ------------------------------------------------------------------ as_memory_map *)

Theorem tie_builder_as_memory_map : forall b,
  gen_Builder_as_memory_map mmap new_map model_add_resource set_frozen (emb b) =
  let '(b', r) := as_memory_map b in (emb b', r).
Proof.
  intros b. unfold gen_Builder_as_memory_map, as_memory_map, gen_Builder_freeze. cbn [bind_call]. proj.
  change (mk_Builder (bd_aw b) (bd_dw b) (bd_gran b) (map emb_reg (bd_regs b)) (map raw_of_part (bd_stack b)) true)
    with (emb (bfreeze b)).
  destruct (new_map (VInt (bd_aw b)) (VInt (bd_dw b)) (VInt 0)) as [m0|e] eqn:Hn; cbn [bind_st bind]; [|reflexivity].
  erewrite (for_each_add_regs (bfreeze b)).
  - destruct (add_regs (bfreeze b) m0 (bd_regs b)) as [m'|e]; reflexivity.
  - intros r m. unfold emb_reg, reg_addr, reg_size. cbn [snd]. unfold model_add_resource. red_ctl. proj.
    destruct (b_off r) as [o|]; red_ctl;
      try match goal with
          | |- bind (add_resource _ _ _ _ ?s1 ?a1 ?l1) _ = match add_resource _ _ _ _ ?s2 ?a2 ?l2 with _ => _ end =>
              replace s1 with s2 by arith_eq; replace a1 with a2 by arith_eq; replace l1 with l2 by arith_eq
          end;
      match goal with |- context [add_resource ?a ?b ?c ?d ?e ?f ?g] =>
        destruct (add_resource a b c d e f g) as [[m' se]|e'] end; reflexivity.
Qed.
Print Assumptions tie_builder_as_memory_map.

(* ------------------------------------------------------------------ Bridge.__init__ *)

Section Bridge.
Variables MMap MWin Mux Sig : Type.
Variable mm_freeze : MMap -> MMap.
Variable mm_windows : MMap -> list MWin.
Variable mm_resources : MMap -> list (pyobj * name * (Z * Z)).
Variable mm_addr_width mm_data_width : MMap -> Z.
Variable mux_new : MMap -> pyint -> res Mux.
Variable csr_sig : Z -> Z -> res Sig.

Definition all_registers (m : MMap) : bool := forallb (fun x => is_register (fst (fst x))) (mm_resources m).

(* csr.Bridge.__init__ in the code's order: type check, no windows, every resource a Register, freeze, the
   multiplexer over the frozen map (default shadow_overlaps), the signature from the map's widths, one member "bus"
   (an input), bus.memory_map = the frozen map.  Result: the map as it is left, and the three attributes. *)
Definition bridge_init_spec (mo : option MMap)
  : res (MMap * (Mux * list (string * (pydir * Sig)) * MMap)) :=
  match mo with
  | None => Err TypeError
  | Some m =>
      if py_nonempty (mm_windows m) then Err ValueError
      else if negb (all_registers m) then Err TypeError
      else
        let m' := mm_freeze m in
        let! mux := mux_new m' VNone in
        let! sg := csr_sig (mm_addr_width m') (mm_data_width m') in
        Ok (m', (mux, [("bus"%string, (DIn, sg))], m'))
  end.

Lemma bridge_loop (body : (pyobj * name * (Z * Z)) -> unit -> res (ctl unit Empty_set)) :
  (forall x u, body x u = if negb (is_register (fst (fst x))) then Err TypeError else Ok (Next tt)) ->
  forall l, for_each body l tt = if forallb (fun x => is_register (fst (fst x))) l then Ok (Fell tt) else Err TypeError.
Proof.
  intros Hb. induction l as [|x l IH]; [reflexivity|].
  cbn [for_each forallb]. rewrite Hb. destruct (is_register (fst (fst x))); cbn [negb andb]; [exact IH|reflexivity].
Qed.

Theorem tie_bridge_init : forall mo,
  gen_Bridge_init MMap MWin Mux Sig mm_freeze mm_windows mm_resources mm_addr_width mm_data_width mux_new csr_sig mo =
  bridge_init_spec mo.
Proof.
  intros [m|]; unfold gen_Bridge_init, bridge_init_spec; cbn [is_some negb]; [|reflexivity].
  destruct (py_nonempty (mm_windows m)); [reflexivity|].
  erewrite bridge_loop.
  - unfold all_registers. destruct (forallb _ (mm_resources m)); cbn [negb bind]; [|reflexivity].
    destruct (mux_new (mm_freeze m) VNone) as [mux|e]; cbn [bind]; [|reflexivity].
    destruct (csr_sig _ _) as [sg|e]; reflexivity.
  - intros [[o n] [s e]] u. cbn [fst]. destruct (is_register o); reflexivity.
Qed.

(* the refusals against the model of the same checks inside Multiplexer (Model/Elab.v, mux_check: 2 = TypeError,
   1 = ValueError, 3 = the AttributeError the multiplexer alone raises for a resource that is no Register):
   Bridge.__init__ refuses first, in the same order, and turns 3 into TypeError *)
Theorem tie_bridge_refusals : forall mo,
  (forall m, exists mux, mux_new m VNone = Ok mux) -> (forall a d, exists sg, csr_sig a d = Ok sg) ->
  let code := match bridge_init_spec mo with Ok _ => 0 | Err e => exn_code e end in
  let c := Elab.mux_check (is_some mo)
             (match mo with Some m => py_nonempty (mm_windows m) | None => false end)
             (match mo with Some m => negb (all_registers m) | None => false end) in
  code = if c =? 3 then 2 else c.
Proof.
  intros mo Hmux Hsig. unfold bridge_init_spec, Elab.mux_check.
  destruct mo as [m|]; cbn [is_some negb]; [|reflexivity].
  destruct (py_nonempty (mm_windows m)); [reflexivity|].
  destruct (all_registers m); cbn [negb]; [|reflexivity].
  destruct (Hmux (mm_freeze m)) as [mux ->]. cbn [bind].
  destruct (Hsig (mm_addr_width (mm_freeze m)) (mm_data_width (mm_freeze m))) as [sg ->]. reflexivity.
Qed.
End Bridge.
Print Assumptions tie_bridge_init.
Print Assumptions tie_bridge_refusals.

(* end to end against the memory-map model: the map that as_memory_map returns for a builder the API can produce is
   accepted by Bridge.__init__ (no windows; resources() reports the builder's registers, which are Registers) and
   handed on as it is (it is frozen already) *)
Definition reg_object (b : builder) (id : Z) : pyobj :=
  match find (fun r => b_id r =? id) (bd_regs b) with Some r => OReg id (b_width r) | None => OOther id end.

Definition model_resources (b : builder) (m : mmap) : list (pyobj * name * (Z * Z)) :=
  map (fun t => match t with (id, n, s, e) => (reg_object b id, n, (s, e)) end) (resources m).

Lemma place_all_ids b l : forall cur t, In t (place_all b cur l) -> In (p_id t) (map b_id l).
Proof.
  induction l as [|r l IH]; intros cur t Hin; cbn [place_all] in Hin; [destruct Hin|].
  destruct Hin as [<-|Hin]; [left; reflexivity|right; exact (IH _ _ Hin)].
Qed.

Theorem tie_bridge_accepts_builder_map : forall (Mux Sig : Type) mux_new csr_sig b m,
  reachable_builder b -> snd (as_memory_map b) = Ok m ->
  gen_Bridge_init mmap (Z * option name * Z * Z * Z)%type Mux Sig set_frozen windows (model_resources b)
                  m_aw m_dw mux_new csr_sig (Some m) =
  (let! mux := mux_new m VNone in
   let! sg := csr_sig (bd_aw b) (bd_dw b) in
   Ok (m, (mux, [("bus"%string, (DIn, sg))], m))).
Proof.
  intros Mux Sig mux_new csr_sig b m Hr Hm. rewrite tie_bridge_init. unfold bridge_init_spec.
  destruct (BuilderMap.as_memory_map_spec b (BuilderInv.reachable_binv b Hr)) as [(_ & m1 & Hm1 & _ & Hfr & Haw & Hdw & _ & Hw & Hress & Hrep)|(_ & Herr)];
    [|rewrite Herr in Hm; discriminate].
  rewrite Hm1 in Hm. injection Hm as ->.
  rewrite (windows_no_wins m Hw). cbn [py_nonempty].
  assert (Hall : all_registers mmap (model_resources b) m = true).
  { unfold all_registers, model_resources. apply forallb_forall. intros x Hx.
    apply in_map_iff in Hx as ([[[id n] s] e] & <- & Hin). cbn [fst].
    apply Hrep in Hin. unfold placed in Hin.
    assert (Hid : In id (map b_id (bd_regs b))) by exact (place_all_ids b (bd_regs b) 0 (id, n, s, e) Hin).
    unfold reg_object. clear - Hid. induction (bd_regs b) as [|r l IH]; [destruct Hid|].
    cbn [find]. destruct (b_id r =? id) eqn:E; [reflexivity|].
    destruct Hid as [Heq|Hid]; [cbn [map] in *; lia|exact (IH Hid)]. }
  rewrite Hall. cbn [negb].
  assert (Hsf : set_frozen m = m) by (destruct m; cbn [m_frozen] in Hfr; subst; reflexivity).
  rewrite Hsf, Haw, Hdw. reflexivity.
Qed.
Print Assumptions tie_bridge_accepts_builder_map.
