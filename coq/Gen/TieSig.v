(* Tie lemmas for the interface signatures and the port declarations of the components.

   SigGen.v is regenerated on every run by harness/translate9.py from the CURRENT source of the enumeration,
   signature, interface and component classes of amaranth_soc (see the docstring of translate9.py for how Python
   objects are represented; coq/Lib/PyWire.v is the specified, untranslated part).  This file proves the generated
   definitions equal to Model/Wiring.v for ALL arguments.  It never mentions a generated LOCAL name; only the names
   of generated definitions, record fields and the order of their parameters.

   Relations that are not plain equality, and why:
   * values: the generated code has its own inductives / records (one per Python class); `acc_of`, `facc_of`,
     `trg_of`, `feats_of`, `abs_*` below map them to the model's types.  A frozenset of Feature members is a list in
     the generated code and six booleans in the model: `feats_of` is membership.
   * results: the model has its own two-exception `res` (Wiring.res); `cv` embeds it into Lib.Res.res.
   * non-integer / None arguments are outside the model (its parameters are Z): the lemmas state what the generated
     code does there explicitly (always the TypeError / ValueError of the first failing check).
   * members: `tie_*_members` prove that the dict handed to wiring.Signature.__init__ is a PERMUTATION of the
     model's `members` (names through `mname_str`, shapes as (width, signed)); insertion order is not compared
     (connect() sorts by name).  On the unchanged source the lists are in fact equal.
   * components: the generated constructor is parametric in the statements the translator cannot read (opaque
     steps `o : option exn`, see translate9.py); the lemmas say: the first opaque step that raises decides,
     otherwise the result is the model's.  Checks the model leaves out because they cannot fail for accepted
     arguments (the memory-map setter of a freshly built map) are PROVED redundant here, not assumed; arguments
     the model does not have (alignment, input_stages) are required to be valid.
   * csr.Register, csr.FieldAction, the csr.action classes and event.Monitor's plain ports have no model function:
     their lemmas pin the declaration to the expression written here. *)
From Coq Require Import ZArith List Bool String Lia ZifyBool Permutation.
From Soc Require Import Lib.Bits Model.Wiring Proofs.Sram Proofs.Wiring.
Module MW := Soc.Model.Wiring.
From Soc Require Import Lib.Res Lib.PyWire.
From SocGen Require Import SigGen.
Import ListNotations.
Open Scope string_scope.
Open Scope Z_scope.

(* ================================================================ conversions *)

Definition cv_exn (e : MW.exn) : exn :=
  match e with MW.ValueError => ValueError | MW.TypeError => TypeError end.
Definition cv {A B} (f : A -> B) (r : MW.res A) : res B :=
  match r with MW.Ok a => Ok (f a) | MW.Err e => Err (cv_exn e) end.

Definition acc_of (a : csr_Element_Access) : access :=
  match a with csr_Element_Access_R => AccR | csr_Element_Access_W => AccW | csr_Element_Access_RW => AccRW end.
Definition facc_of (a : csr_FieldPort_Access) : faccess :=
  match a with
  | csr_FieldPort_Access_R => FAccR | csr_FieldPort_Access_W => FAccW
  | csr_FieldPort_Access_RW => FAccRW | csr_FieldPort_Access_NC => FAccNC
  end.
Definition trg_of (t : event_Source_Trigger) : trigger :=
  match t with
  | event_Source_Trigger_LEVEL => TLevel | event_Source_Trigger_RISE => TRise | event_Source_Trigger_FALL => TFall
  end.
Definition fmem (f : wishbone_Feature) (l : list wishbone_Feature) : bool := fset_mem wishbone_Feature_eqb f l.
Definition feats_of (l : list wishbone_Feature) : features :=
  {| ft_err := fmem wishbone_Feature_ERR l; ft_rty := fmem wishbone_Feature_RTY l;
     ft_stall := fmem wishbone_Feature_STALL l; ft_lock := fmem wishbone_Feature_LOCK l;
     ft_cti := fmem wishbone_Feature_CTI l; ft_bte := fmem wishbone_Feature_BTE l |}.

(* the argument of EnumClass(..) as the model sees it: None = a value the class rejects *)
Definition arg_of {E M} (call : earg E -> res E) (f : E -> M) (a : earg E) : option M :=
  match call a with Ok e => Some (f e) | Err _ => None end.
Definition acc_arg := arg_of csr_Element_Access_call acc_of.
Definition facc_arg := arg_of csr_FieldPort_Access_call facc_of.
Definition trg_arg := arg_of event_Source_Trigger_call trg_of.
(* an iterable of Feature arguments: the members it yields, and whether one of them is rejected *)
Definition feat_ok (a : earg wishbone_Feature) : bool := match wishbone_Feature_call a with Ok _ => true | Err _ => false end.
Definition feats_bad (l : list (earg wishbone_Feature)) : bool := negb (forallb feat_ok l).
Fixpoint feats_list (l : list (earg wishbone_Feature)) : list wishbone_Feature :=
  match l with
  | [] => []
  | a :: l' => match wishbone_Feature_call a with Ok f => f :: feats_list l' | Err _ => feats_list l' end
  end.

Definition cv_shapelike (x : shapelike) : MW.shapelike :=
  match x with SLInt n => MW.SLInt n | SLCast w s => MW.SLCast w s | SLBad => MW.SLBad end.

Definition cv_flow (f : flow) : pflow := match f with FIn => PIn | FOut => POut end.
Definition mname_str (n : mname) : string :=
  match n with
  | Nack => "ack" | Naddr => "addr" | Nadr => "adr" | Nbte => "bte" | Ncti => "cti" | Ncyc => "cyc"
  | Ndat_r => "dat_r" | Ndat_w => "dat_w" | Nerr => "err" | Ni => "i" | Nlock => "lock" | No => "o" | Noe => "oe"
  | Nr_data => "r_data" | Nr_stb => "r_stb" | Nrty => "rty" | Nsel => "sel" | Nstall => "stall" | Nstb => "stb"
  | Ntrg => "trg" | Nw_data => "w_data" | Nw_stb => "w_stb" | Nwe => "we"
  end.
(* a member of the model as an entry of the generated members dict (every modelled path has one component) *)
Definition cv_member (m : member) : string * pport :=
  (match m_path m with n :: _ => mname_str n | [] => "" end,
   {| pp_flow := cv_flow (m_flow m); pp_shape := (m_width m, m_signed m) |}).

(* signature records -> the model's signature values *)
Definition abs_elem (s : csr_Element_Signature) : sig :=
  SElem {| e_width := csr_Element_Signature__width s; e_access := acc_of (csr_Element_Signature__access s) |}.
Definition abs_csr (s : csr_Signature) : sig :=
  SCsr {| c_addr_width := csr_Signature__addr_width s; c_data_width := csr_Signature__data_width s |}.
Definition abs_field (s : csr_FieldPort_Signature) : sig :=
  SField {| fp_width := fst (csr_FieldPort_Signature__shape s); fp_signed := snd (csr_FieldPort_Signature__shape s);
            fp_access := facc_of (csr_FieldPort_Signature__access s) |}.
Definition abs_src (s : event_Source_Signature) : sig := SSrc (trg_of (event_Source_Signature__trigger s)).
Definition abs_pin (s : gpio_PinSignature) : sig := SPin.
Definition abs_wb (s : wishbone_Signature) : sig :=
  SWb {| w_addr_width := wishbone_Signature__addr_width s; w_data_width := wishbone_Signature__data_width s;
         w_granularity := wishbone_Signature__granularity s; w_features := feats_of (wishbone_Signature__features s) |}.
Definition abs (g : gsig) : sig :=
  match g with
  | G_csr_Element_Signature s => abs_elem s | G_csr_Signature s => abs_csr s
  | G_csr_FieldPort_Signature s => abs_field s | G_event_Source_Signature s => abs_src s
  | G_gpio_PinSignature s => abs_pin s | G_wishbone_Signature s => abs_wb s
  end.

(* ================================================================ tactics *)

(* one case split per `if` / `match` of the goal, remembering the equation *)
Ltac split_if :=
  match goal with
  | |- context [if ?b then _ else _] => destruct b eqn:?
  end.
Ltac unbool :=
  repeat match goal with
         | H : (_ || _) = true |- _ => apply orb_prop in H
         | H : (_ || _) = false |- _ => apply orb_false_elim in H; destruct H
         | H : (_ && _) = true |- _ => apply andb_prop in H; destruct H
         | H : negb _ = true |- _ => apply negb_true_iff in H
         | H : negb _ = false |- _ => apply negb_false_iff in H
         end.

(* generated checks against the model's, one at a time: both refuse with the same exception, or both go on;
   the two conditions need not be spelled alike, only be equivalent (lia decides) *)
Ltac lockstep :=
  match goal with
  | |- rmap _ (if ?c then _ else _) = cv _ (if ?m then _ else _) =>
      destruct c eqn:?, m eqn:?;
      [ reflexivity
      | exfalso; first [discriminate | rewrite ?Z.gtb_ltb, ?Z.geb_leb in *; lia]
      | exfalso; first [discriminate | rewrite ?Z.gtb_ltb, ?Z.geb_leb in *; lia]
      | ]
  end.

(* ================================================================ enumerations *)

(* member names, values and order of definition (the values are what callers pass as strings) *)
Theorem tie_enum_values :
  csr_Element_Access_values =
    [(csr_Element_Access_R, RStr "r"); (csr_Element_Access_W, RStr "w"); (csr_Element_Access_RW, RStr "rw")] /\
  csr_FieldPort_Access_values =
    [(csr_FieldPort_Access_R, RStr "r"); (csr_FieldPort_Access_W, RStr "w"); (csr_FieldPort_Access_RW, RStr "rw");
     (csr_FieldPort_Access_NC, RStr "nc")] /\
  event_Source_Trigger_values =
    [(event_Source_Trigger_LEVEL, RStr "level"); (event_Source_Trigger_RISE, RStr "rise");
     (event_Source_Trigger_FALL, RStr "fall")] /\
  wishbone_Feature_values =
    [(wishbone_Feature_ERR, RStr "err"); (wishbone_Feature_RTY, RStr "rty"); (wishbone_Feature_STALL, RStr "stall");
     (wishbone_Feature_LOCK, RStr "lock"); (wishbone_Feature_CTI, RStr "cti"); (wishbone_Feature_BTE, RStr "bte")] /\
  map snd wishbone_CycleType_values = [RInt 0; RInt 1; RInt 2; RInt 7] /\
  map snd wishbone_BurstTypeExt_values = [RInt 0; RInt 1; RInt 2; RInt 3] /\
  map snd gpio_PinMode_values = [RInt 0; RInt 1; RInt 2; RInt 3].
Proof. repeat split; reflexivity. Qed.
Print Assumptions tie_enum_values.

(* Shape.cast of the three enumerations used as shapes: CycleType 3 bits, BurstTypeExt 2 bits, PinMode 2 bits *)
Theorem tie_enum_shapes :
  wishbone_CycleType_shape = (cti_width, false) /\ wishbone_BurstTypeExt_shape = (bte_width, false) /\
  gpio_PinMode_shape = (2, false).
Proof. repeat split; reflexivity. Qed.
Print Assumptions tie_enum_shapes.

(* Element.Access.readable / writable *)
Theorem tie_access_methods : forall a,
  gen_csr_Element_Access_readable a = readable (acc_of a) /\
  gen_csr_Element_Access_writable a = writable (acc_of a).
Proof. intros []; split; reflexivity. Qed.
Print Assumptions tie_access_methods.

(* the equality tests the generated code uses are equality *)
Lemma access_eqb_ok a b : csr_Element_Access_eqb a b = access_eqb (acc_of a) (acc_of b).
Proof. destruct a, b; reflexivity. Qed.
Lemma faccess_eqb_ok a b : csr_FieldPort_Access_eqb a b = faccess_eqb (facc_of a) (facc_of b).
Proof. destruct a, b; reflexivity. Qed.
Lemma trigger_eqb_ok a b : event_Source_Trigger_eqb a b = trigger_eqb (trg_of a) (trg_of b).
Proof. destruct a, b; reflexivity. Qed.
Lemma feature_eqb_eq a b : wishbone_Feature_eqb a b = true <-> a = b.
Proof. destruct a, b; split; intro H; try reflexivity; discriminate H. Qed.

(* ================================================================ csr.Signature *)

(* __init__: validation in order, and the attributes stored *)
Theorem tie_csr_init : forall aw dw,
  rmap abs_csr (gen_csr_Signature_init aw dw) =
  match aw, dw with
  | VInt a, VInt d => cv id (mk_csr a d)
  | _, _ => Err TypeError
  end.
Proof.
  intros aw dw. unfold gen_csr_Signature_init, mk_csr.
  destruct aw as [a| |]; cbn [is_int zof negb orb]; try reflexivity.
  destruct dw as [d| |]; cbn [is_int zof negb orb].
  - repeat lockstep. reflexivity.
  - split_if; reflexivity.
  - split_if; reflexivity.
Qed.
Print Assumptions tie_csr_init.

Theorem tie_csr_members : forall aw dw s, gen_csr_Signature_init aw dw = Ok s ->
  Permutation (csr_Signature_members s) (map cv_member (members (abs_csr s))).
Proof.
  intros aw dw s H. unfold gen_csr_Signature_init in H.
  repeat match type of H with (if ?b then _ else _) = _ => destruct b; [discriminate H|] end.
  injection H as <-. apply dsort_eq_perm. reflexivity.
Qed.
Print Assumptions tie_csr_members.

Theorem tie_csr_props : forall s,
  abs_csr s = SCsr {| c_addr_width := gen_csr_Signature_get_addr_width s;
                      c_data_width := gen_csr_Signature_get_data_width s |}.
Proof. reflexivity. Qed.
Print Assumptions tie_csr_props.

(* create(): the interface it returns carries an unflipped signature with the model's parameters *)
Theorem tie_csr_create : forall s,
  rmap (fun i => (fst (csr_Interface_signature i), abs_csr (snd (csr_Interface_signature i)))) (gen_csr_Signature_create s) =
  cv base (create (abs_csr s)).
Proof.
  intro s. unfold gen_csr_Signature_create, gen_csr_Interface_init. cbn [create abs_csr c_addr_width c_data_width].
  pose proof (tie_csr_init (VInt (csr_Signature__addr_width s)) (VInt (csr_Signature__data_width s))) as T.
  cbv beta iota in T. destruct (gen_csr_Signature_init _ _) as [x|e]; cbn [rmap bind] in *;
    destruct (mk_csr _ _); cbn [cv id fst snd csr_Interface_signature] in *; try discriminate T;
    injection T as T; unfold base, id in *; rewrite ?T; reflexivity.
Qed.
Print Assumptions tie_csr_create.

Theorem tie_csr_eq : forall s g, gen_csr_Signature_eq s g = sig_eqb (abs_csr s) (abs g).
Proof. intros s []; reflexivity. Qed.
Print Assumptions tie_csr_eq.

(* ================================================================ generic facts about the specified part *)

Lemma enum_call_err {E} (t : list (E * pyraw)) a e : enum_call t a = Err e -> e = ValueError.
Proof.
  unfold enum_call. destruct a as [m|r]; [discriminate|].
  destruct (find _ t); [discriminate|]. intro H. injection H as <-. reflexivity.
Qed.

Lemma enum_call_mem {E} (t : list (E * pyraw)) m : enum_call t (EMem m) = Ok m.
Proof. reflexivity. Qed.

Lemma acc_call_mem m : csr_Element_Access_call (EMem m) = Ok m.   Proof. reflexivity. Qed.
Lemma facc_call_mem m : csr_FieldPort_Access_call (EMem m) = Ok m. Proof. reflexivity. Qed.
Lemma trg_call_mem m : event_Source_Trigger_call (EMem m) = Ok m.  Proof. reflexivity. Qed.
Lemma feat_call_mem m : wishbone_Feature_call (EMem m) = Ok m.     Proof. reflexivity. Qed.

(* peel a generated constructor that returned Ok: one case per check *)
Ltac crack H :=
  cbv zeta in H;
  repeat match type of H with
         | (if ?b then _ else _) = Ok _ => destruct b eqn:?; [discriminate H|]
         | bind ?r _ = Ok _ => let E := fresh "E" in destruct r eqn:E; cbn [bind] in H; [|discriminate H]
         end.

(* ================================================================ csr.Element.Signature *)

Theorem tie_elem_init : forall w a,
  rmap abs_elem (gen_csr_Element_Signature_init w a) =
  match w with
  | VInt z => cv id (mk_elem z (acc_arg a))
  | _ => Err TypeError
  end.
Proof.
  intros w a. unfold gen_csr_Element_Signature_init, mk_elem, acc_arg, arg_of.
  destruct w as [z| |]; cbn [is_int zof negb orb]; try reflexivity.
  lockstep. cbv zeta.
  destruct (csr_Element_Access_call a) as [e|x] eqn:E; cbn [bind rmap cv id].
  - reflexivity.
  - apply enum_call_err in E. subst x. reflexivity.
Qed.
Print Assumptions tie_elem_init.

Theorem tie_elem_members : forall w a s, gen_csr_Element_Signature_init w a = Ok s ->
  Permutation (csr_Element_Signature_members s) (map cv_member (members (abs_elem s))).
Proof.
  intros w a s H. unfold gen_csr_Element_Signature_init in H. crack H.
  injection H as <-. apply dsort_eq_perm.
  match goal with |- context [gen_csr_Element_Access_readable ?x] => destruct x end; reflexivity.
Qed.
Print Assumptions tie_elem_members.

Theorem tie_elem_props : forall s,
  abs_elem s = SElem {| e_width := gen_csr_Element_Signature_get_width s;
                        e_access := acc_of (gen_csr_Element_Signature_get_access s) |}.
Proof. reflexivity. Qed.
Print Assumptions tie_elem_props.

Theorem tie_elem_create : forall s,
  rmap (fun i => (fst (csr_Element_signature i), abs_elem (snd (csr_Element_signature i)))) (gen_csr_Element_Signature_create s) =
  cv base (create (abs_elem s)).
Proof.
  intro s. unfold gen_csr_Element_Signature_create, gen_csr_Element_init. cbn [create abs_elem e_width e_access].
  pose proof (tie_elem_init (VInt (csr_Element_Signature__width s)) (EMem (csr_Element_Signature__access s))) as T.
  cbv beta iota in T. unfold acc_arg, arg_of in T. rewrite acc_call_mem in T.
  destruct (gen_csr_Element_Signature_init _ _) as [x|e]; cbn [rmap bind] in *;
    destruct (mk_elem _ _); cbn [cv id fst snd csr_Element_signature] in *; try discriminate T;
    injection T as T; unfold base, id in *; rewrite ?T; reflexivity.
Qed.
Print Assumptions tie_elem_create.

Theorem tie_elem_eq : forall s g, gen_csr_Element_Signature_eq s g = sig_eqb (abs_elem s) (abs g).
Proof.
  intros s []; try reflexivity. unfold gen_csr_Element_Signature_eq. rewrite access_eqb_ok. reflexivity.
Qed.
Print Assumptions tie_elem_eq.

(* ================================================================ csr.FieldPort.Signature *)

Theorem tie_field_init : forall sl a,
  rmap abs_field (gen_csr_FieldPort_Signature_init sl a) = cv id (mk_field (cv_shapelike sl) (facc_arg a)).
Proof.
  intros sl a. unfold gen_csr_FieldPort_Signature_init, mk_field, facc_arg, arg_of.
  assert (F : forall x, csr_FieldPort_Access_call a = Err x -> x = ValueError) by (intros x E; exact (enum_call_err _ _ _ E)).
  destruct sl as [n|w s|]; cbn [is_shapelike shape_cast cv_shapelike negb]; try reflexivity.
  - destruct (0 <=? n) eqn:E1, (n <? 0) eqn:E2; cbn [negb bind]; try lia; try reflexivity.
    cbv zeta. destruct (csr_FieldPort_Access_call a) as [e|x]; cbn [bind rmap cv id]; [reflexivity|].
    rewrite (F x eq_refl). reflexivity.
  - cbv zeta. destruct (csr_FieldPort_Access_call a) as [e|x]; cbn [bind rmap cv id]; [reflexivity|].
    rewrite (F x eq_refl). reflexivity.
Qed.
Print Assumptions tie_field_init.

Theorem tie_field_members : forall sl a s, gen_csr_FieldPort_Signature_init sl a = Ok s ->
  Permutation (csr_FieldPort_Signature_members s) (map cv_member (members (abs_field s))).
Proof.
  intros sl a s H. unfold gen_csr_FieldPort_Signature_init in H. crack H.
  injection H as <-. apply dsort_eq_perm.
  match goal with |- context [p_in ?sh] => destruct sh end. reflexivity.
Qed.
Print Assumptions tie_field_members.

Theorem tie_field_props : forall s,
  abs_field s = SField {| fp_width := fst (gen_csr_FieldPort_Signature_get_shape s);
                          fp_signed := snd (gen_csr_FieldPort_Signature_get_shape s);
                          fp_access := facc_of (gen_csr_FieldPort_Signature_get_access s) |}.
Proof. reflexivity. Qed.
Print Assumptions tie_field_props.

(* create(): FieldPort(self) - the very same signature object, unflipped *)
Theorem tie_field_create : forall s,
  rmap (fun i => (fst (csr_FieldPort_signature i), abs_field (snd (csr_FieldPort_signature i)))) (gen_csr_FieldPort_Signature_create s) =
  cv base (create (abs_field s)) /\
  rmap (fun i => snd (csr_FieldPort_signature i)) (gen_csr_FieldPort_Signature_create s) = Ok s.
Proof. intro s. split; reflexivity. Qed.
Print Assumptions tie_field_create.

Theorem tie_field_eq : forall s g, gen_csr_FieldPort_Signature_eq s g = sig_eqb (abs_field s) (abs g).
Proof.
  intros s []; try reflexivity. unfold gen_csr_FieldPort_Signature_eq. rewrite faccess_eqb_ok. reflexivity.
Qed.
Print Assumptions tie_field_eq.

(* ================================================================ event.Source.Signature *)

Theorem tie_src_init : forall t,
  rmap abs_src (gen_event_Source_Signature_init t) = cv id (mk_src (trg_arg t)).
Proof.
  intro t. unfold gen_event_Source_Signature_init, mk_src, trg_arg, arg_of. cbv zeta.
  destruct (event_Source_Trigger_call t) as [e|x] eqn:E; cbn [bind rmap cv id]; [reflexivity|].
  apply enum_call_err in E. subst x. reflexivity.
Qed.
Print Assumptions tie_src_init.

Theorem tie_src_members : forall t s, gen_event_Source_Signature_init t = Ok s ->
  Permutation (event_Source_Signature_members s) (map cv_member (members (abs_src s))).
Proof.
  intros t s H. unfold gen_event_Source_Signature_init in H. crack H.
  injection H as <-. apply dsort_eq_perm. reflexivity.
Qed.
Print Assumptions tie_src_members.

Theorem tie_src_props : forall s, abs_src s = SSrc (trg_of (gen_event_Source_Signature_get_trigger s)).
Proof. reflexivity. Qed.
Print Assumptions tie_src_props.

Theorem tie_src_create : forall s,
  rmap (fun i => (fst (event_Source_signature i), abs_src (snd (event_Source_signature i)))) (gen_event_Source_Signature_create s) =
  cv base (create (abs_src s)).
Proof.
  intro s. unfold gen_event_Source_Signature_create, gen_event_Source_init. cbn [create abs_src].
  pose proof (tie_src_init (EMem (event_Source_Signature__trigger s))) as T.
  unfold trg_arg, arg_of in T. rewrite trg_call_mem in T.
  destruct (gen_event_Source_Signature_init _) as [x|e]; cbn [rmap bind] in *;
    destruct (mk_src _); cbn [cv id fst snd event_Source_signature] in *; try discriminate T;
    injection T as T; unfold base, id in *; rewrite ?T; reflexivity.
Qed.
Print Assumptions tie_src_create.

Theorem tie_src_eq : forall s g, gen_event_Source_Signature_eq s g = sig_eqb (abs_src s) (abs g).
Proof.
  intros s []; try reflexivity. unfold gen_event_Source_Signature_eq. rewrite trigger_eqb_ok. reflexivity.
Qed.
Print Assumptions tie_src_eq.

(* ================================================================ gpio.PinSignature *)

Theorem tie_pin_init : rmap abs_pin gen_gpio_PinSignature_init = cv id mk_pin.
Proof. reflexivity. Qed.
Print Assumptions tie_pin_init.

Theorem tie_pin_members : forall s, gen_gpio_PinSignature_init = Ok s ->
  Permutation (gpio_PinSignature_members s) (map cv_member (members (abs_pin s))).
Proof.
  intros s H. unfold gen_gpio_PinSignature_init in H. crack H. injection H as <-.
  apply dsort_eq_perm. reflexivity.
Qed.
Print Assumptions tie_pin_members.

(* all pin signatures are equal; create() is the inherited one (no generated definition, Model: Ok s) *)
Theorem tie_pin_eq : forall s g, gen_gpio_PinSignature_eq s g = sig_eqb (abs_pin s) (abs g).
Proof. intros s []; reflexivity. Qed.
Print Assumptions tie_pin_eq.

(* ================================================================ wishbone.Signature *)

Lemma width_in_ok z : z_in z [8; 16; 32; 64] = wb_width_ok z.
Proof.
  unfold z_in, wb_width_ok. cbn [existsb].
  destruct (z =? 8), (z =? 16), (z =? 32), (z =? 64); reflexivity.
Qed.

(* frozenset(Feature(f) for f in features): the members in order, ValueError at the first rejected value *)
Lemma features_mapR fs :
  mapR (fun a => wishbone_Feature_call a) fs = if feats_bad fs then Err ValueError else Ok (feats_list fs).
Proof.
  unfold feats_bad. induction fs as [|a fs IH]; [reflexivity|].
  cbn [mapR forallb feats_list]. unfold feat_ok at 1.
  destruct (wishbone_Feature_call a) as [f|x] eqn:E.
  - rewrite IH. cbn [andb]. destruct (forallb feat_ok fs); reflexivity.
  - apply enum_call_err in E. subst x. reflexivity.
Qed.

Definition gran_arg (g : pyint) : option Z := match g with VInt z => Some z | _ => None end.

Theorem tie_wb_init : forall aw dw gran fs,
  rmap abs_wb (gen_wishbone_Signature_init aw dw gran fs) =
  match aw, dw, gran with
  | VInt a, VInt d, (VInt _ | VNone) => cv id (mk_wb a d (gran_arg gran) (feats_of (feats_list fs)) (feats_bad fs))
  | VInt a, _, _ => if a <? 0 then Err TypeError else Err ValueError
  | _, _, _ => Err TypeError
  end.
Proof.
  intros aw dw gran fs. unfold gen_wishbone_Signature_init, mk_wb. cbv zeta.
  destruct aw as [a| |]; cbn [is_int zof negb orb]; try reflexivity.
  destruct dw as [d| |], gran as [g| |]; cbn [is_none zof pyint_in existsb gran_arg negb]; unfold wb_width_ok;
    try (repeat split_if; try reflexivity; exfalso; lia).
  - repeat lockstep. rewrite features_mapR. destruct (feats_bad fs); reflexivity.
  - repeat lockstep. rewrite features_mapR. destruct (feats_bad fs); reflexivity.
Qed.
Print Assumptions tie_wb_init.

Theorem tie_wb_members : forall aw dw gran fs s, gen_wishbone_Signature_init aw dw gran fs = Ok s ->
  Permutation (wishbone_Signature_members s) (map cv_member (members (abs_wb s))).
Proof.
  intros aw dw gran fs s H. unfold gen_wishbone_Signature_init in H. crack H.
  injection H as <-. unfold abs_wb, feats_of, fmem.
  cbn [wishbone_Signature__features wishbone_Signature__addr_width wishbone_Signature__data_width
       wishbone_Signature__granularity wishbone_Signature_members].
  repeat match goal with |- context [fset_mem ?e ?x ?l] => destruct (fset_mem e x l) end;
    apply dsort_eq_perm; reflexivity.
Qed.
Print Assumptions tie_wb_members.

Theorem tie_wb_props : forall s,
  abs_wb s = SWb {| w_addr_width := gen_wishbone_Signature_get_addr_width s;
                    w_data_width := gen_wishbone_Signature_get_data_width s;
                    w_granularity := gen_wishbone_Signature_get_granularity s;
                    w_features := feats_of (gen_wishbone_Signature_get_features s) |}.
Proof. reflexivity. Qed.
Print Assumptions tie_wb_props.

Lemma feats_list_mem l : feats_list (map EMem l) = l.
Proof. induction l as [|f l IH]; [reflexivity|]. cbn [map feats_list]. rewrite feat_call_mem, IH. reflexivity. Qed.
Lemma feats_bad_mem l : feats_bad (map EMem l) = false.
Proof.
  unfold feats_bad. induction l as [|f l IH]; [reflexivity|].
  cbn [map forallb]. unfold feat_ok at 1. rewrite feat_call_mem. exact IH.
Qed.

(* create(): Interface(addr_width=, data_width=, granularity=, features=self.features) *)
Theorem tie_wb_create : forall s,
  rmap (fun i => (fst (wishbone_Interface_signature i), abs_wb (snd (wishbone_Interface_signature i)))) (gen_wishbone_Signature_create s) =
  cv base (create (abs_wb s)).
Proof.
  intro s. unfold gen_wishbone_Signature_create, gen_wishbone_Interface_init.
  cbn [create abs_wb w_addr_width w_data_width w_granularity w_features].
  pose proof (tie_wb_init (VInt (wishbone_Signature__addr_width s)) (VInt (wishbone_Signature__data_width s))
                (VInt (wishbone_Signature__granularity s)) (map EMem (wishbone_Signature__features s))) as T.
  cbv beta iota in T. rewrite feats_list_mem, feats_bad_mem in T. cbn [gran_arg] in T.
  destruct (gen_wishbone_Signature_init _ _ _ _) as [x|e]; cbn [rmap bind] in *;
    destruct (mk_wb _ _ _ _ _); cbn [cv id fst snd wishbone_Interface_signature] in *; try discriminate T;
    injection T as T; unfold base, id in *; rewrite ?T; reflexivity.
Qed.
Print Assumptions tie_wb_create.

(* frozenset == frozenset on the lists standing for them is equality of the six membership bits *)
Lemma fset_sub_spec a b :
  fset_sub wishbone_Feature_eqb a b = true <-> (forall f, fmem f a = true -> fmem f b = true).
Proof.
  unfold fset_sub, fmem, fset_mem. rewrite forallb_forall. split.
  - intros H f Hf. apply existsb_exists in Hf. destruct Hf as (x & Hx & E).
    apply feature_eqb_eq in E. subst x. apply H, Hx.
  - intros H x Hx. apply H. apply existsb_exists. exists x. split; [exact Hx|]. apply feature_eqb_eq. reflexivity.
Qed.

Lemma fset_eqb_spec a b :
  fset_eqb wishbone_Feature_eqb a b = features_eqb (feats_of a) (feats_of b).
Proof.
  apply eq_true_iff_eq. unfold fset_eqb. rewrite andb_true_iff, !fset_sub_spec. split.
  - intros [H1 H2]. unfold features_eqb, feats_of.
    cbn [ft_err ft_rty ft_stall ft_lock ft_cti ft_bte].
    assert (E : forall f, fmem f a = fmem f b).
    { intro f. destruct (fmem f a) eqn:Ea, (fmem f b) eqn:Eb; try reflexivity.
      - rewrite (H1 f Ea) in Eb. discriminate.
      - rewrite (H2 f Eb) in Ea. discriminate. }
    rewrite !E. rewrite !eqb_reflx. reflexivity.
  - unfold features_eqb, feats_of. cbn [ft_err ft_rty ft_stall ft_lock ft_cti ft_bte].
    rewrite !andb_true_iff, !eqb_true_iff. intros (((((E1 & E2) & E3) & E4) & E5) & E6).
    split; intros [] H; congruence.
Qed.

Theorem tie_wb_eq : forall s g, gen_wishbone_Signature_eq s g = sig_eqb (abs_wb s) (abs g).
Proof.
  intros s []; try reflexivity. unfold gen_wishbone_Signature_eq. rewrite fset_eqb_spec. reflexivity.
Qed.
Print Assumptions tie_wb_eq.

(* ================================================================ interfaces: __init__ *)

(* every interface class builds its signature from its own arguments, unflipped, and refuses exactly when the
   signature class refuses; FieldPort(signature) keeps the object it is given (the isinstance check cannot fail
   for a FieldPort.Signature, flipped or not) *)
Theorem tie_iface_init :
  (forall aw dw, gen_csr_Interface_init aw dw =
     rmap (fun s => {| csr_Interface_signature := (false, s) |}) (gen_csr_Signature_init aw dw)) /\
  (forall w a, gen_csr_Element_init w a =
     rmap (fun s => {| csr_Element_signature := (false, s) |}) (gen_csr_Element_Signature_init w a)) /\
  (forall aw dw g fs, gen_wishbone_Interface_init aw dw g fs =
     rmap (fun s => {| wishbone_Interface_signature := (false, s) |}) (gen_wishbone_Signature_init aw dw g fs)) /\
  (forall t, gen_event_Source_init t =
     rmap (fun s => {| event_Source_signature := (false, s) |}) (gen_event_Source_Signature_init t)) /\
  (forall sv, gen_csr_FieldPort_init sv = Ok {| csr_FieldPort_signature := sv |}).
Proof.
  split; [|split; [|split; [|split]]].
  - intros aw dw. unfold gen_csr_Interface_init. destruct (gen_csr_Signature_init aw dw); reflexivity.
  - intros w a. unfold gen_csr_Element_init. destruct (gen_csr_Element_Signature_init w a); reflexivity.
  - intros aw dw g fs. unfold gen_wishbone_Interface_init. destruct (gen_wishbone_Signature_init aw dw g fs); reflexivity.
  - intro t. unfold gen_event_Source_init. destruct (gen_event_Source_Signature_init t); reflexivity.
  - intros [f s]. reflexivity.
Qed.
Print Assumptions tie_iface_init.

(* ================================================================ interfaces: the memory_map setters *)

(* csr.Interface.memory_map = m: both widths must agree (the isinstance check cannot fail for a MemoryMap) *)
Theorem tie_csr_iface_setter : forall i m,
  gen_csr_Interface_set_memory_map i m =
  if negb (memory_MemoryMap__addr_width m =? gen_csr_Interface_get_addr_width i) then Err ValueError
  else if negb (memory_MemoryMap__data_width m =? gen_csr_Interface_get_data_width i) then Err ValueError
  else Ok tt.
Proof. reflexivity. Qed.
Print Assumptions tie_csr_iface_setter.

(* wishbone.Interface.memory_map = m: data width = granularity, address width = max(1, addr_width + log2(ratio)) *)
Theorem tie_wb_iface_setter : forall i m,
  gen_wishbone_Interface_set_memory_map i m =
  if negb (memory_MemoryMap__data_width m =? gen_wishbone_Interface_get_granularity i) then Err ValueError
  else let! k := exact_log2 (gen_wishbone_Interface_get_data_width i / gen_wishbone_Interface_get_granularity i) in
       if negb (memory_MemoryMap__addr_width m =? Z.max 1 (gen_wishbone_Interface_get_addr_width i + k)) then Err ValueError
       else Ok tt.
Proof. reflexivity. Qed.
Print Assumptions tie_wb_iface_setter.

(* MemoryMap(addr_width=, data_width=, alignment=): the three checks, all ValueError *)
Theorem tie_memory_map_init : forall aw dw al,
  rmap (fun m => (memory_MemoryMap__addr_width m, memory_MemoryMap__data_width m, memory_MemoryMap__alignment m))
       (gen_memory_MemoryMap_init aw dw al) =
  if negb (is_int aw) || (zof aw <=? 0) then Err ValueError
  else if negb (is_int dw) || (zof dw <=? 0) then Err ValueError
  else if negb (is_int al) || (zof al <? 0) then Err ValueError
  else Ok (zof aw, zof dw, zof al).
Proof.
  intros aw dw al. unfold gen_memory_MemoryMap_init. repeat split_if; try reflexivity; exfalso; lia.
Qed.
Print Assumptions tie_memory_map_init.

(* ================================================================ components: views *)

(* a member of a component's ports dict as the model describes it *)
Inductive amem := AIface (p : port) (dims : list Z) | APort (f : flow) (w : Z) (s : bool) (dims : list Z).
Definition flow_of (f : pflow) : flow := match f with PIn => FIn | POut => FOut end.
Definition absm (m : pmember gsig) : amem :=
  match pm_body m with
  | BSig fl g => AIface {| p_flow := flow_of (pm_flow m); p_sig := (fl, abs g) |} (pm_dims m)
  | BShape sh => APort (flow_of (pm_flow m)) (fst sh) (snd sh) (pm_dims m)
  end.
Definition absd (d : pdict (pmember gsig)) : list (string * amem) := map (fun kv => (fst kv, absm (snd kv))) d.

(* `component.<port>.signature` for the attribute Component.__init__ created: (flipped?, signature) *)
Definition csr_attr (a : bool * csr_Interface) : sigv :=
  (xorb (fst a) (fst (csr_Interface_signature (snd a))), abs_csr (snd (csr_Interface_signature (snd a)))).
Definition wb_attr (a : bool * wishbone_Interface) : sigv :=
  (xorb (fst a) (fst (wishbone_Interface_signature (snd a))), abs_wb (snd (wishbone_Interface_signature (snd a)))).
Definition src_attr (a : bool * event_Source) : sigv :=
  (xorb (fst a) (fst (event_Source_signature (snd a))), abs_src (snd (event_Source_signature (snd a)))).
Definition elem_attr (a : bool * csr_Element) : sigv :=
  (xorb (fst a) (fst (csr_Element_signature (snd a))), abs_elem (snd (csr_Element_signature (snd a)))).
Definition field_attr (a : bool * csr_FieldPort) : sigv :=
  (xorb (fst a) (fst (csr_FieldPort_signature (snd a))), abs_field (snd (csr_FieldPort_signature (snd a)))).

Lemma Ok_inj {A} (x y : A) : Ok x = Ok y -> x = y.
Proof. intro H. injection H as H. exact H. Qed.
Lemma pair_inj {A B} (a a' : A) (b b' : B) : (a, b) = (a', b') -> a = a' /\ b = b'.
Proof. intro H. injection H as H1 H2. auto. Qed.

(* ---- what a successful / failing generated signature constructor means, in the model's terms *)

Lemma csr_init_ok a d s : gen_csr_Signature_init (VInt a) (VInt d) = Ok s ->
  mk_csr a d = MW.Ok (abs_csr s) /\ abs_csr s = SCsr {| c_addr_width := a; c_data_width := d |}.
Proof.
  intro H. pose proof (tie_csr_init (VInt a) (VInt d)) as T. rewrite H in T. cbn [rmap] in T.
  destruct (mk_csr a d) as [x|e] eqn:E; cbn [cv] in T; [|discriminate T]. injection T as T. unfold id in T. subst x.
  split; [reflexivity|]. apply mk_csr_ok in E. exact E.
Qed.
Lemma csr_init_err a d e : gen_csr_Signature_init (VInt a) (VInt d) = Err e ->
  exists e', mk_csr a d = MW.Err e' /\ cv_exn e' = e.
Proof.
  intro H. pose proof (tie_csr_init (VInt a) (VInt d)) as T. rewrite H in T. cbn [rmap] in T.
  destruct (mk_csr a d) as [x|e'] eqn:E; cbn [cv] in T; [discriminate T|]. injection T as T. eauto.
Qed.
(* the interface Component.__init__ creates from an accepted signature *)
Lemma csr_create_ok a d s : gen_csr_Signature_init (VInt a) (VInt d) = Ok s ->
  exists x, gen_csr_Signature_create s = Ok {| csr_Interface_signature := (false, x) |} /\ abs_csr x = abs_csr s.
Proof.
  intro H. destruct (csr_init_ok a d s H) as [M _].
  pose proof (tie_csr_create s) as T. rewrite (create_same (ACsr a d) _ M) in T. cbn [cv] in T.
  destruct (gen_csr_Signature_create s) as [[[f x]]|e]; cbn [rmap] in T; [|discriminate T].
  apply Ok_inj, pair_inj in T. cbn [fst snd csr_Interface_signature] in T. destruct T as [-> T2]. eauto.
Qed.

(* ================================================================ csr.Multiplexer *)

Theorem tie_mux_ports : forall m o,
  rmap (fun c => (absd (csr_Multiplexer_ports c), csr_attr (csr_Multiplexer_port_bus c))) (gen_csr_Multiplexer_init m o) =
  match o with
  | Some e => Err e       (* _check_memory_map / the shadow registers *)
  | None => cv (fun p => ([("bus", AIface p [])], signature_of_port p))
               (mux_bus (memory_MemoryMap__addr_width m) (memory_MemoryMap__data_width m))
  end.
Proof.
  intros m o. unfold gen_csr_Multiplexer_init, mux_bus. destruct o as [e|]; cbn [opaque_step bind rmap]; [reflexivity|].
  destruct (gen_csr_Signature_init _ _) as [s|e] eqn:E; cbn [bind rmap].
  - destruct (csr_init_ok _ _ _ E) as [M A]. destruct (csr_create_ok _ _ _ E) as (x & C & Ax).
    rewrite M. cbv zeta. rewrite C. cbn [bind MW.bind cv].
    rewrite tie_csr_iface_setter. unfold gen_csr_Interface_get_addr_width, gen_csr_Interface_get_data_width.
    cbn [csr_Interface_signature snd]. pose proof Ax as Ax'. rewrite A in Ax'. injection Ax' as A1 A2.
    rewrite A1, A2, !Z.eqb_refl. cbn [negb bind rmap].
    unfold csr_attr. cbn [csr_Multiplexer_port_bus csr_Multiplexer_ports csr_Interface_signature fst snd xorb].
    rewrite Ax. reflexivity.
  - destruct (csr_init_err _ _ _ E) as (e' & M & <-). rewrite M. reflexivity.
Qed.
Print Assumptions tie_mux_ports.

(* ---- MemoryMap(...) built inside a constructor *)
Definition mm_bad (aw dw al : pyint) : bool :=
  (negb (is_int aw) || (zof aw <=? 0)) || (negb (is_int dw) || (zof dw <=? 0)) || (negb (is_int al) || (zof al <? 0)).
Lemma mm_init_ok aw dw al : mm_bad aw dw al = false ->
  exists m, gen_memory_MemoryMap_init aw dw al = Ok m /\ memory_MemoryMap__addr_width m = zof aw /\
            memory_MemoryMap__data_width m = zof dw /\ memory_MemoryMap__alignment m = zof al.
Proof.
  unfold mm_bad. intro H. pose proof (tie_memory_map_init aw dw al) as T.
  apply orb_false_elim in H. destruct H as [H H3]. apply orb_false_elim in H. destruct H as [H1 H2].
  rewrite H1, H2, H3 in T. destruct (gen_memory_MemoryMap_init aw dw al) as [m|e]; cbn [rmap] in T; [|discriminate T].
  apply Ok_inj, pair_inj in T. destruct T as [T T3]. apply pair_inj in T. destruct T as [T1 T2]. eauto.
Qed.
Lemma mm_init_bad aw dw al : mm_bad aw dw al = true -> gen_memory_MemoryMap_init aw dw al = Err ValueError.
Proof.
  unfold mm_bad. intro H. pose proof (tie_memory_map_init aw dw al) as T.
  destruct (gen_memory_MemoryMap_init aw dw al) as [m|e]; cbn [rmap] in T.
  - repeat match type of T with _ = (if ?b then _ else _) => destruct b; [discriminate T|] end. discriminate H.
  - repeat match type of T with _ = (if ?b then _ else _) => destruct b; [injection T as ->; reflexivity|] end. discriminate T.
Qed.

(* ================================================================ csr.Decoder *)

Definition one_bus (p : port) : list (string * amem) * sigv := ([("bus", AIface p [])], signature_of_port p).
Definition al_bad (al : pyint) : bool := negb (is_int al) || (zof al <? 0).

Theorem tie_csrdec_ports : forall a d al,
  rmap (fun c => (absd (csr_Decoder_ports c), csr_attr (csr_Decoder_port_bus c))) (gen_csr_Decoder_init (VInt a) (VInt d) al) =
  match csrdec_bus a d with
  | MW.Ok p => if al_bad al then Err ValueError else Ok (one_bus p)     (* MemoryMap(.., alignment=alignment) *)
  | MW.Err e => Err (cv_exn e)
  end.
Proof.
  intros a d al. unfold gen_csr_Decoder_init, csrdec_bus.
  destruct (gen_csr_Signature_init _ _) as [s|e] eqn:E; cbn [bind rmap].
  - destruct (csr_init_ok _ _ _ E) as [M A]. destruct (csr_create_ok _ _ _ E) as (x & C & Ax).
    rewrite M. cbv zeta. rewrite C. cbn [bind MW.bind].
    destruct (construct_csr_accepts a d _ M) as (Pa & Pd & _).
    destruct (al_bad al) eqn:B.
    + rewrite mm_init_bad; [reflexivity|]. unfold mm_bad. unfold al_bad in B. rewrite B. apply orb_true_r.
    + destruct (mm_init_ok (VInt a) (VInt d) al) as (m & Hm & M1 & M2 & _).
      { unfold mm_bad. unfold al_bad in B. rewrite B. cbn [is_int zof negb orb]. lia. }
      rewrite Hm. cbn [bind]. rewrite tie_csr_iface_setter.
      unfold gen_csr_Interface_get_addr_width, gen_csr_Interface_get_data_width.
      cbn [csr_Interface_signature snd]. pose proof Ax as Ax'. rewrite A in Ax'. injection Ax' as A1 A2.
      rewrite A1, A2, M1, M2. cbn [zof]. rewrite !Z.eqb_refl. cbn [negb bind rmap].
      unfold csr_attr, one_bus. cbn [csr_Decoder_port_bus csr_Decoder_ports csr_Interface_signature fst snd xorb].
      rewrite Ax. reflexivity.
  - destruct (csr_init_err _ _ _ E) as (e' & M & <-). rewrite M. reflexivity.
Qed.
Print Assumptions tie_csrdec_ports.

(* ================================================================ csr.Bridge *)

Theorem tie_bridge_ports : forall m o1 o2,
  rmap (fun c => (absd (csr_Bridge_ports c), csr_attr (csr_Bridge_port_bus c))) (gen_csr_Bridge_init m o1 o2) =
  match o1, o2 with
  | Some e, _ => Err e          (* windows / non-Register resources / freeze() *)
  | None, Some e => Err e       (* inside Multiplexer(memory_map) *)
  | None, None => cv one_bus (bridge_bus (memory_MemoryMap__addr_width m) (memory_MemoryMap__data_width m))
  end.
Proof.
  intros m o1 o2. unfold gen_csr_Bridge_init, bridge_bus.
  destruct o1 as [e|]; cbn [opaque_step bind rmap]; [reflexivity|].
  pose proof (tie_mux_ports m o2) as X.
  destruct o2 as [e|].
  { destruct (gen_csr_Multiplexer_init m (Some e)); cbn [rmap] in X; [discriminate X|]. injection X as ->. reflexivity. }
  destruct (gen_csr_Multiplexer_init m None) as [c|e]; cbn [rmap bind] in *.
  - destruct (mux_bus _ _) as [p|e'] eqn:Mx; cbn [cv] in X; [|discriminate X]. cbn [MW.bind].
    destruct (gen_csr_Signature_init _ _) as [s|e] eqn:E; cbn [bind rmap].
    + destruct (csr_init_ok _ _ _ E) as [M A]. destruct (csr_create_ok _ _ _ E) as (x & C & Ax).
      rewrite M. cbv zeta. rewrite C. cbn [bind MW.bind cv].
      rewrite tie_csr_iface_setter. unfold gen_csr_Interface_get_addr_width, gen_csr_Interface_get_data_width.
      cbn [csr_Interface_signature snd]. pose proof Ax as Ax'. rewrite A in Ax'. injection Ax' as A1 A2.
      rewrite A1, A2, !Z.eqb_refl. cbn [negb bind rmap].
      unfold csr_attr, one_bus. cbn [csr_Bridge_port_bus csr_Bridge_ports csr_Interface_signature fst snd xorb].
      rewrite Ax. reflexivity.
    + destruct (csr_init_err _ _ _ E) as (e' & M & <-). rewrite M. reflexivity.
  - destruct (mux_bus _ _) as [p|e'] eqn:Mx; cbn [cv] in X; [discriminate X|]. injection X as ->. reflexivity.
Qed.
Print Assumptions tie_bridge_ports.

(* ================================================================ wishbone components *)

Definition gran_ok (g : pyint) : Prop := match g with VBad => False | _ => True end.

Lemma wb_init_ok a d gran fs s : gran_ok gran -> gen_wishbone_Signature_init (VInt a) (VInt d) gran fs = Ok s ->
  mk_wb a d (gran_arg gran) (feats_of (feats_list fs)) (feats_bad fs) = MW.Ok (abs_wb s).
Proof.
  intros G H. pose proof (tie_wb_init (VInt a) (VInt d) gran fs) as T. rewrite H in T. cbn [rmap] in T.
  destruct gran; try contradiction;
    (destruct (mk_wb _ _ _ _ _) as [x|e]; cbn [cv] in T; [|discriminate T]; apply Ok_inj in T; unfold id in T; subst x; reflexivity).
Qed.
Lemma wb_init_err a d gran fs e : gran_ok gran -> gen_wishbone_Signature_init (VInt a) (VInt d) gran fs = Err e ->
  exists e', mk_wb a d (gran_arg gran) (feats_of (feats_list fs)) (feats_bad fs) = MW.Err e' /\ cv_exn e' = e.
Proof.
  intros G H. pose proof (tie_wb_init (VInt a) (VInt d) gran fs) as T. rewrite H in T. cbn [rmap] in T.
  destruct gran; try contradiction;
    (destruct (mk_wb _ _ _ _ _) as [x|e']; cbn [cv] in T; [discriminate T|]; injection T as T; eauto).
Qed.
Lemma wb_create_ok a d gran fs s : gran_ok gran -> gen_wishbone_Signature_init (VInt a) (VInt d) gran fs = Ok s ->
  exists x, gen_wishbone_Signature_create s = Ok {| wishbone_Interface_signature := (false, x) |} /\ abs_wb x = abs_wb s.
Proof.
  intros G H. pose proof (wb_init_ok _ _ _ _ _ G H) as M.
  pose proof (tie_wb_create s) as T. rewrite (create_same (AWb _ _ _ _ _) _ M) in T. cbn [cv] in T.
  destruct (gen_wishbone_Signature_create s) as [[[f x]]|e]; cbn [rmap] in T; [|discriminate T].
  apply Ok_inj, pair_inj in T. cbn [fst snd wishbone_Interface_signature] in T. destruct T as [-> T2]. eauto.
Qed.

(* ---------------------------------------------------------------- wishbone.Arbiter *)

Theorem tie_arb_ports : forall a d gran fs, gran_ok gran ->
  rmap (fun c => (absd (wishbone_Arbiter_ports c), wb_attr (wishbone_Arbiter_port_bus c)))
       (gen_wishbone_Arbiter_init (VInt a) (VInt d) gran fs) =
  cv one_bus (arb_bus a d (gran_arg gran) (feats_of (feats_list fs)) (feats_bad fs)).
Proof.
  intros a d gran fs G. unfold gen_wishbone_Arbiter_init, arb_bus.
  destruct (gen_wishbone_Signature_init _ _ _ _) as [s|e] eqn:E; cbn [bind rmap].
  - pose proof (wb_init_ok _ _ _ _ _ G E) as M. destruct (wb_create_ok _ _ _ _ _ G E) as (x & C & Ax).
    rewrite M. cbv zeta. rewrite C. cbn [bind MW.bind cv rmap].
    unfold wb_attr, one_bus. cbn [wishbone_Arbiter_port_bus wishbone_Arbiter_ports wishbone_Interface_signature fst snd xorb].
    rewrite Ax. reflexivity.
  - destruct (wb_init_err _ _ _ _ _ G E) as (e' & M & <-). rewrite M. reflexivity.
Qed.
Print Assumptions tie_arb_ports.

(* `if x is None: x = default`, however the generated text spells it: name the resulting pyint expression *)
Ltac grab_default v :=
  match goal with
  | |- context [?t] =>
      lazymatch type of t with pyint => lazymatch t with context [is_none] => set (v := t) end end
  end.

(* ---------------------------------------------------------------- wishbone.Decoder *)

(* data_width // granularity of an accepted signature is 1, 2, 4 or 8 *)
Lemma ratio_pow2 d g : wb_width_ok d = true -> wb_width_ok g = true -> g <= d ->
  exists k, exact_log2 (d / g) = Ok k /\ 0 <= k <= 3.
Proof.
  intros Hd Hg L. apply wb_width_ok_spec in Hd. apply wb_width_ok_spec in Hg.
  destruct Hd as [->|[->|[->| ->]]], Hg as [->|[->|[->| ->]]]; try lia;
    (eexists; split; [cbv; reflexivity|lia]).
Qed.

Theorem tie_wbdec_ports : forall a d gran fs al, gran_ok gran ->
  rmap (fun c => (absd (wishbone_Decoder_ports c), wb_attr (wishbone_Decoder_port_bus c)))
       (gen_wishbone_Decoder_init (VInt a) (VInt d) gran fs al) =
  match wbdec_bus a d (gran_arg gran) (feats_of (feats_list fs)) (feats_bad fs) with
  | MW.Ok p => if al_bad al then Err ValueError else Ok (one_bus p)     (* MemoryMap(.., alignment=alignment) *)
  | MW.Err e => Err (cv_exn e)
  end.
Proof.
  intros a d gran fs al G. unfold gen_wishbone_Decoder_init, wbdec_bus. cbv zeta.
  grab_default g2.
  assert (G2 : exists g', g2 = VInt g' /\ g' = match gran_arg gran with Some x => x | None => d end).
  { subst g2. destruct gran; try contradiction; cbn; eauto. }
  clearbody g2. destruct G2 as (g' & -> & Eg). rewrite <- Eg. clear Eg G gran.
  destruct (gen_wishbone_Signature_init _ _ _ _) as [s|e] eqn:E; cbn [bind rmap].
  - pose proof (wb_init_ok _ _ (VInt g') _ _ I E) as M. destruct (wb_create_ok _ _ (VInt g') _ _ I E) as (x & C & Ax).
    cbn [gran_arg] in M. rewrite M, C. cbn [bind MW.bind zof].
    destruct (construct_wb_accepts _ _ _ _ _ _ M) as (Pa & Pd & Pg & Pl & _ & S). cbv zeta in Pg, Pl, S.
    destruct (ratio_pow2 d g' Pd Pg Pl) as (k & K & Pk). rewrite K. cbn [bind].
    destruct (al_bad al) eqn:B.
    + rewrite mm_init_bad; [reflexivity|]. unfold mm_bad. unfold al_bad in B. rewrite B. apply orb_true_r.
    + destruct (mm_init_ok (VInt (Z.max 1 (a + k))) (VInt g') al) as (m & Hm & M1 & M2 & _).
      { unfold mm_bad. unfold al_bad in B. rewrite B. cbn [is_int zof negb orb].
        apply wb_width_ok_spec in Pg. lia. }
      rewrite Hm. cbn [bind]. rewrite tie_wb_iface_setter.
      unfold gen_wishbone_Interface_get_addr_width, gen_wishbone_Interface_get_data_width, gen_wishbone_Interface_get_granularity.
      cbn [wishbone_Interface_signature snd]. pose proof Ax as Ax'. rewrite S in Ax'. injection Ax' as A1 A2 A3 _.
      rewrite A1, A2, A3, M1, M2. cbn [zof]. rewrite Z.eqb_refl, K. cbn [negb bind]. rewrite Z.eqb_refl. cbn [negb bind rmap].
      unfold wb_attr, one_bus. cbn [wishbone_Decoder_port_bus wishbone_Decoder_ports wishbone_Interface_signature fst snd xorb].
      rewrite Ax. reflexivity.
  - destruct (wb_init_err _ _ (VInt g') _ _ I E) as (e' & M & <-). cbn [gran_arg] in M. rewrite M. reflexivity.
Qed.
Print Assumptions tie_wbdec_ports.

(* ---------------------------------------------------------------- wishbone.sram.WishboneSRAM *)

Lemma pow2_check n : negb (is_int (VInt n)) || (n <=? 0) || negb (Z.land n (n - 1) =? 0) = negb (is_pow2 n).
Proof. unfold is_pow2. cbn [is_int negb orb]. destruct (n <=? 0) eqn:A, (0 <? n) eqn:B; try lia; reflexivity. Qed.

(* the address width the SRAM gives its memory map is the one the setter expects: never a refusal *)
Lemma sram_addr_aux size g j : is_pow2 size = true -> 0 < g -> 0 <= j -> 2 ^ j * g <= size * g -> 0 < Z.log2 size ->
  Z.log2 size = Z.max 1 (Z.log2 (size * g / (2 ^ j * g)) + j).
Proof.
  intros P Hg Hj L K. rewrite Z.div_mul_cancel_r by lia.
  pose proof (is_pow2_log2 size P) as S. set (ks := Z.log2 size) in *.
  assert (J : j <= ks).
  { apply (Z.pow_le_mono_r_iff 2); [lia|lia|]. rewrite <- S. nia. }
  rewrite S, <- Z.pow_sub_r by lia. rewrite Z.log2_pow2 by lia. lia.
Qed.

Lemma sram_addr size d g j : is_pow2 size = true -> wb_width_ok d = true -> wb_width_ok g = true -> g <= d ->
  d <= size * g -> 0 < Z.log2 size -> exact_log2 (d / g) = Ok j ->
  Z.log2 size = Z.max 1 (Z.log2 (size * g / d) + j).
Proof.
  intros P Hd Hg L1 L2 K J. apply wb_width_ok_spec in Hd. apply wb_width_ok_spec in Hg.
  destruct Hd as [->|[->|[->| ->]]], Hg as [->|[->|[->| ->]]]; try lia;
    compute in J; injection J as <-;
    match goal with |- context [size * ?g / ?d] =>
      match goal with |- context [_ + ?j] => change d with (2 ^ j * g); apply sram_addr_aux; auto; lia end end.
Qed.

Theorem tie_sram_ports : forall size d gran, gran_ok gran ->
  rmap (fun c => (absd (wishbone_sram_WishboneSRAM_ports c), wb_attr (wishbone_sram_WishboneSRAM_port_wb_bus c)))
       (gen_wishbone_sram_WishboneSRAM_init (VInt size) (VInt d) gran None None None None None) =
  cv (fun p => ([("wb_bus", AIface p [])], signature_of_port p)) (sram_bus size d (gran_arg gran)).
Proof.
  intros size d gran G. unfold gen_wishbone_sram_WishboneSRAM_init, sram_bus. cbv zeta.
  grab_default g2.
  assert (G2 : exists g', g2 = VInt g' /\ g' = match gran_arg gran with Some x => x | None => d end).
  { subst g2. destruct gran; try contradiction; cbn; eauto. }
  clearbody g2. destruct G2 as (g' & -> & Eg). rewrite <- Eg. clear Eg G gran.
  cbn [zof pyint_in opaque_step bind]. fold (z_in d [8; 16; 32; 64]). fold (z_in g' [8; 16; 32; 64]).
  rewrite pow2_check, !width_in_ok.
  destruct (is_pow2 size) eqn:P; cbn [negb]; [|reflexivity].
  destruct (wb_width_ok d) eqn:Pd; cbn [negb]; [|reflexivity].
  destruct (wb_width_ok g') eqn:Pg; cbn [negb]; [|reflexivity].
  destruct (size * g' <? d) eqn:L2; [reflexivity|].
  unfold exact_log2 at 1, MW.exact_log2 at 1.
  destruct (is_pow2 (size * g' / d)) eqn:P2; cbn [bind MW.bind]; [|reflexivity].
  destruct (gen_wishbone_Signature_init _ _ _ _) as [s|e] eqn:E; cbn [bind rmap].
  - pose proof (wb_init_ok _ _ (VInt g') _ _ I E) as M. destruct (wb_create_ok _ _ (VInt g') _ _ I E) as (x & C & Ax).
    cbn [gran_arg] in M. change (feats_of (feats_list [])) with no_features in M. change (feats_bad []) with false in M.
    rewrite M, C. cbn [bind MW.bind].
    destruct (construct_wb_accepts _ _ _ _ _ _ M) as (Pa & _ & _ & Pl & _ & S). cbv zeta in Pl, S.
    unfold exact_log2 at 1, MW.exact_log2 at 1. rewrite P. cbn [bind MW.bind].
    destruct (Z.log2 size <=? 0) eqn:K.
    + rewrite mm_init_bad; [reflexivity|]. unfold mm_bad. cbn [is_int zof negb orb]. rewrite K. reflexivity.
    + destruct (mm_init_ok (VInt (Z.log2 size)) (VInt g') (VInt 0)) as (m & Hm & M1 & M2 & _).
      { unfold mm_bad. cbn [is_int zof negb orb]. apply wb_width_ok_spec in Pg. lia. }
      rewrite Hm. cbn [bind]. rewrite tie_wb_iface_setter.
      unfold gen_wishbone_Interface_get_addr_width, gen_wishbone_Interface_get_data_width, gen_wishbone_Interface_get_granularity.
      cbn [wishbone_Interface_signature snd]. pose proof Ax as Ax'. rewrite S in Ax'. injection Ax' as A1 A2 A3 _.
      rewrite A1, A2, A3, M1, M2. cbn [zof]. rewrite Z.eqb_refl. cbn [negb].
      destruct (ratio_pow2 d g' Pd Pg Pl) as (j & J & _). rewrite J. cbn [bind].
      pose proof (sram_addr size d g' j P Pd Pg Pl (proj1 (Z.ltb_ge _ _) L2) (proj1 (Z.leb_gt _ _) K) J) as SA.
      rewrite <- SA, Z.eqb_refl. cbn [negb bind rmap cv].
      unfold wb_attr. cbn [wishbone_sram_WishboneSRAM_port_wb_bus wishbone_sram_WishboneSRAM_ports wishbone_Interface_signature fst snd xorb].
      rewrite Ax. reflexivity.
  - destruct (wb_init_err _ _ (VInt g') _ _ I E) as (e' & M & <-). cbn [gran_arg] in M.
    change (feats_of (feats_list [])) with no_features in M. change (feats_bad []) with false in M. rewrite M. reflexivity.
Qed.
Print Assumptions tie_sram_ports.

(* ---------------------------------------------------------------- csr.wishbone.WishboneCSRBridge *)

(* csr_bus may be handed over flipped or not (the code unflips it); the window it adds afterwards is the opaque step *)
Theorem tie_wbcsr_ports : forall fl (i : csr_Interface) dw, gran_ok dw ->
  let caw := gen_csr_Interface_get_addr_width i in
  let cdw := gen_csr_Interface_get_data_width i in
  rmap (fun c => (absd (csr_wishbone_WishboneCSRBridge_ports c), wb_attr (csr_wishbone_WishboneCSRBridge_port_wb_bus c)))
       (gen_csr_wishbone_WishboneCSRBridge_init (fl, i) dw None) =
  cv (fun p => ([("wb_bus", AIface p [])], signature_of_port p)) (wbcsr_bus caw cdw (gran_arg dw)).
Proof.
  intros fl i dw G caw cdw. unfold gen_csr_wishbone_WishboneCSRBridge_init, wbcsr_bus. cbv zeta.
  unfold gen_csr_Interface_get_addr_width, gen_csr_Interface_get_data_width in caw, cdw.
  cbn [fst snd]. fold caw cdw.
  replace (negb (negb (fst (if fl then (negb fl, i) else (fl, i))))) with false by (destruct fl; reflexivity).
  rewrite width_in_ok. destruct (wb_width_ok cdw) eqn:Pc; cbn [negb]; [|reflexivity].
  grab_default d5.
  assert (D : exists d, d5 = VInt d /\ d = match gran_arg dw with Some x => x | None => cdw end).
  { subst d5. destruct dw; try contradiction; cbn; eauto. }
  clearbody d5. destruct D as (d & -> & Ed). rewrite <- Ed. clear Ed G dw. cbn [zof].
  unfold exact_log2 at 1, MW.exact_log2 at 1.
  destruct (is_pow2 (d / cdw)) eqn:P; cbn [bind MW.bind]; [|reflexivity].
  set (k := Z.log2 (d / cdw)).
  destruct (gen_wishbone_Signature_init _ _ _ _) as [s|e] eqn:E; cbn [bind rmap].
  - pose proof (wb_init_ok _ _ (VInt cdw) _ _ I E) as M. destruct (wb_create_ok _ _ (VInt cdw) _ _ I E) as (x & C & Ax).
    cbn [gran_arg] in M. change (feats_of (feats_list [])) with no_features in M. change (feats_bad []) with false in M.
    rewrite M, C. cbn [bind MW.bind].
    destruct (construct_wb_accepts _ _ _ _ _ _ M) as (_ & _ & _ & _ & _ & S). cbv zeta in S.
    destruct (caw <=? 0) eqn:K.
    + rewrite mm_init_bad by (unfold mm_bad; cbn [is_int zof negb orb]; rewrite K; reflexivity).
      replace (caw =? Z.max 1 (Z.max 0 (caw - k) + k)) with false by lia. reflexivity.
    + destruct (mm_init_ok (VInt caw) (VInt cdw) (VInt 0)) as (m & Hm & M1 & M2 & _).
      { unfold mm_bad. cbn [is_int zof negb orb]. apply wb_width_ok_spec in Pc. lia. }
      rewrite Hm. cbn [bind]. rewrite tie_wb_iface_setter.
      unfold gen_wishbone_Interface_get_addr_width, gen_wishbone_Interface_get_data_width, gen_wishbone_Interface_get_granularity.
      cbn [wishbone_Interface_signature snd]. pose proof Ax as Ax'. rewrite S in Ax'. injection Ax' as A1 A2 A3 _.
      rewrite A1, A2, A3, M1, M2. cbn [zof]. rewrite Z.eqb_refl. cbn [negb].
      unfold exact_log2. rewrite P. cbn [bind]. fold k.
      destruct (caw =? Z.max 1 (Z.max 0 (caw - k) + k)); cbn [negb bind opaque_step rmap cv]; [|reflexivity].
      unfold wb_attr. cbn [csr_wishbone_WishboneCSRBridge_port_wb_bus csr_wishbone_WishboneCSRBridge_ports wishbone_Interface_signature fst snd xorb].
      rewrite Ax. reflexivity.
  - destruct (wb_init_err _ _ (VInt cdw) _ _ I E) as (e' & M & <-). cbn [gran_arg] in M.
    change (feats_of (feats_list [])) with no_features in M. change (feats_bad []) with false in M. rewrite M. reflexivity.
Qed.
Print Assumptions tie_wbcsr_ports.

(* ================================================================ event.Monitor *)

Lemma src_init_ok t s : gen_event_Source_Signature_init t = Ok s -> mk_src (trg_arg t) = MW.Ok (abs_src s).
Proof.
  intro H. pose proof (tie_src_init t) as T. rewrite H in T. cbn [rmap] in T.
  destruct (mk_src _) as [x|e]; cbn [cv] in T; [|discriminate T]. apply Ok_inj in T. unfold id in T. subst x. reflexivity.
Qed.
Lemma src_init_err t e : gen_event_Source_Signature_init t = Err e ->
  exists e', mk_src (trg_arg t) = MW.Err e' /\ cv_exn e' = e.
Proof.
  intro H. pose proof (tie_src_init t) as T. rewrite H in T. cbn [rmap] in T.
  destruct (mk_src _) as [x|e']; cbn [cv] in T; [discriminate T|]. injection T as T. eauto.
Qed.
Lemma src_create_ok t s : gen_event_Source_Signature_init t = Ok s ->
  exists x, gen_event_Source_Signature_create s = Ok {| event_Source_signature := (false, x) |} /\ abs_src x = abs_src s.
Proof.
  intro H. pose proof (src_init_ok _ _ H) as M.
  pose proof (tie_src_create s) as T. rewrite (create_same (ASrc _) _ M) in T. cbn [cv] in T.
  destruct (gen_event_Source_Signature_create s) as [[[f x]]|e]; cbn [rmap] in T; [|discriminate T].
  apply Ok_inj, pair_inj in T. cbn [fst snd event_Source_signature] in T. destruct T as [-> T2]. eauto.
Qed.

(* Source.event_map = m: nothing is checked besides the type; freeze() is the opaque step *)
Theorem tie_src_iface_setter : forall i m o, gen_event_Source_set_event_map i m o = opaque_step o.
Proof. intros i m [e|]; reflexivity. Qed.
Print Assumptions tie_src_iface_setter.

Definition monitor_view (n : Z) (p : port) : list (string * amem) * sigv :=
  ([("src", AIface p []); ("enable", APort FIn n false []); ("pending", APort FIn n false []);
    ("clear", APort FIn n false [])], signature_of_port p).

Theorem tie_monitor_ports : forall em t o,
  rmap (fun c => (absd (event_Monitor_ports c), src_attr (event_Monitor_port_src c))) (gen_event_Monitor_init em t o) =
  match monitor_src (trg_arg t) with
  | MW.Ok p => match o with Some e => Err e | None => Ok (monitor_view (event_EventMap_size em) p) end
  | MW.Err e => Err (cv_exn e)
  end.
Proof.
  intros em t o. unfold gen_event_Monitor_init, monitor_src.
  destruct (gen_event_Source_Signature_init t) as [s|e] eqn:E; cbn [bind rmap].
  - pose proof (src_init_ok _ _ E) as M. destruct (src_create_ok _ _ E) as (x & C & Ax).
    rewrite M. cbv zeta. rewrite C. cbn [bind MW.bind]. rewrite tie_src_iface_setter.
    destruct o as [e|]; cbn [opaque_step bind rmap]; [reflexivity|].
    unfold src_attr, monitor_view. cbn [event_Monitor_port_src event_Monitor_ports event_Source_signature fst snd xorb].
    rewrite Ax. reflexivity.
  - destruct (src_init_err _ _ E) as (e' & M & <-). rewrite M. reflexivity.
Qed.
Print Assumptions tie_monitor_ports.

(* ================================================================ csr.event.EventMonitor *)

Lemma src_create_abs x t' : abs_src x = SSrc t' ->
  exists y, gen_event_Source_Signature_create x = Ok {| event_Source_signature := (false, y) |} /\ abs_src y = SSrc t'.
Proof.
  intro A. pose proof (tie_src_create x) as T. rewrite A in T. cbn [create mk_src cv] in T.
  destruct (gen_event_Source_Signature_create x) as [[[f y]]|e]; cbn [rmap] in T; [|discriminate T].
  apply Ok_inj, pair_inj in T. cbn [fst snd event_Source_signature] in T. destruct T as [-> T2]. eauto.
Qed.
Lemma csr_create_abs x a d : abs_csr x = SCsr {| c_addr_width := a; c_data_width := d |} -> 0 < a -> 0 < d ->
  exists y, gen_csr_Signature_create x = Ok {| csr_Interface_signature := (false, y) |} /\
            abs_csr y = SCsr {| c_addr_width := a; c_data_width := d |}.
Proof.
  intros A Pa Pd. pose proof (tie_csr_create x) as T. rewrite A in T. cbn [create c_addr_width c_data_width] in T.
  unfold mk_csr in T. replace (a <=? 0) with false in T by lia. replace (d <=? 0) with false in T by lia. cbn [cv] in T.
  destruct (gen_csr_Signature_create x) as [[[f y]]|e]; cbn [rmap] in T; [|discriminate T].
  apply Ok_inj, pair_inj in T. cbn [fst snd csr_Interface_signature] in T. destruct T as [-> T2]. eauto.
Qed.

Lemma ceil_log2_nonneg n : 0 <= ceil_log2 n.
Proof. unfold ceil_log2. destruct (n <=? 1); [lia|apply Z.log2_up_nonneg]. Qed.

Definition evmon_view (ps : list port) : res (list (string * amem) * sigv * sigv) :=
  match ps with
  | [b; s] => Ok ([("src", AIface s []); ("bus", AIface b [])], signature_of_port b, signature_of_port s)
  | _ => Err OtherError
  end.

(* every opaque step returns: the two mask registers, add_resource x 2, those inside Monitor / Multiplexer, and the
   final `self.bus.memory_map = self._mux.bus.memory_map` *)
Theorem tie_evmon_ports : forall em t d al,
  rmap (fun c => (absd (csr_event_EventMonitor_ports c), csr_attr (csr_event_EventMonitor_port_bus c),
                  src_attr (csr_event_EventMonitor_port_src c)))
       (gen_csr_event_EventMonitor_init em t (VInt d) (VInt al) None None None None None) =
  match evmon_ports (event_EventMap_size em) d al (trg_arg t) with
  | MW.Ok ps => evmon_view ps
  | MW.Err e => Err (cv_exn e)
  end.
Proof.
  intros em t d al. unfold gen_csr_event_EventMonitor_init, evmon_ports. cbn [is_int zof negb orb].
  set (n := event_EventMap_size em).
  destruct (d <=? 0) eqn:Pd; [reflexivity|]. destruct (al <? 0) eqn:Pa; [reflexivity|].
  pose proof (tie_monitor_ports em t None) as X. fold n in X.
  destruct (gen_event_Monitor_init em t None) as [mc|e]; cbn [rmap bind] in *.
  2:{ destruct (monitor_src _); [discriminate X|]. injection X as ->. reflexivity. }
  destruct (monitor_src (trg_arg t)) as [ps|e] eqn:Ms; [|discriminate X].
  apply Ok_inj, pair_inj in X. destruct X as [_ Xs].
  cbv zeta. cbn [opaque_step bind MW.bind].
  match goal with |- context [gen_memory_MemoryMap_init (VInt ?x) _ _] => set (aw := x) end.
  assert (Eaw : evmon_addr_width n d al = aw) by (subst aw; unfold evmon_addr_width; lia).
  rewrite Eaw.
  assert (Paw : 0 < aw).
  { rewrite <- Eaw. unfold evmon_addr_width. pose proof (ceil_log2_nonneg ((n + d - 1) / d)). lia. }
  clearbody aw.
  destruct (mm_init_ok (VInt aw) (VInt d) (VInt al)) as (m & Hm & M1 & M2 & _).
  { unfold mm_bad. cbn [is_int zof negb orb]. lia. }
  rewrite Hm. cbn [bind].
  pose proof (tie_mux_ports m None) as Y. rewrite M1, M2 in Y. cbn [zof] in Y.
  destruct (gen_csr_Multiplexer_init m None) as [xc|e]; cbn [rmap bind] in *.
  2:{ destruct (mux_bus aw d); [discriminate Y|]. injection Y as ->. reflexivity. }
  destruct (mux_bus aw d) as [pm|e] eqn:Mx; [|discriminate Y]. cbn [cv] in Y.
  apply Ok_inj, pair_inj in Y. destruct Y as [_ Ym]. cbn [MW.bind].
  (* what the two inner ports are *)
  apply mux_bus_ok in Mx. subst pm.
  unfold monitor_src in Ms. destruct (mk_src (trg_arg t)) as [ss|e] eqn:Ks; cbn [MW.bind] in Ms; [|discriminate Ms].
  injection Ms as <-. unfold mk_src in Ks. destruct (trg_arg t) as [t'|]; [|discriminate Ks]. injection Ks as <-.
  unfold src_attr in Xs. cbn [signature_of_port OUT p_flow p_sig base] in Xs. apply pair_inj in Xs. destruct Xs as [Fs As].
  unfold csr_attr in Ym. cbn [signature_of_port IN p_flow p_sig base flip fst snd negb] in Ym.
  apply pair_inj in Ym. destruct Ym as [Fm Am].
  destruct (src_create_abs _ _ As) as (ys & Cs & Ays). rewrite Cs. cbn [bind].
  destruct (csr_create_abs _ _ _ Am Paw ltac:(lia)) as (yb & Cb & Ayb). rewrite Cb. cbn [bind rmap].
  unfold evmon_view, absd, absm, csr_attr, src_attr.
  cbn [map fst snd pm_body pm_flow pm_dims m_in m_out flow_of abs
       csr_event_EventMonitor_ports csr_event_EventMonitor_port_bus csr_event_EventMonitor_port_src
       csr_Interface_signature event_Source_signature signature_of_port IN OUT p_flow p_sig base flip].
  rewrite Fs, Fm, As, Am, Ays, Ayb. reflexivity.
Qed.
Print Assumptions tie_evmon_ports.

(* ================================================================ gpio.Peripheral *)

Definition gpio_view (pins : Z) (ps : list port) : res (list (string * amem) * sigv) :=
  match ps with
  | [b; p] => Ok ([("bus", AIface b []); ("pins", AIface p [pins]); ("alt_mode", APort FOut pins false [])],
                  signature_of_port b)
  | _ => Err OtherError
  end.

(* input_stages valid; the opaque steps (regs.add x 4 and csr.Bridge(regs.as_memory_map()); the final memory_map
   hand-over) return *)
Theorem tie_gpio_ports : forall pins a d st, 0 <= st ->
  rmap (fun c => (absd (gpio_Peripheral_ports c), csr_attr (gpio_Peripheral_port_bus c)))
       (gen_gpio_Peripheral_init (VInt pins) (VInt a) (VInt d) (VInt st) None None) =
  match gpio_ports pins a d with
  | MW.Ok ps => gpio_view pins ps
  | MW.Err e => Err (cv_exn e)
  end.
Proof.
  intros pins a d st Hst. unfold gen_gpio_Peripheral_init, gpio_ports, gen_csr_Builder_init. cbn [is_int zof negb orb].
  destruct (pins <=? 0); [reflexivity|]. replace (st <? 0) with false by lia.
  destruct (a <=? 0) eqn:Pa; [reflexivity|]. destruct (d <=? 0) eqn:Pd; [reflexivity|].
  replace (8 <=? 0) with false by reflexivity.
  destruct (negb (d =? d / 8 * 8)); [reflexivity|]. cbv zeta. cbn [bind opaque_step].
  destruct (gen_csr_Signature_init _ _) as [s|e] eqn:E; cbn [bind rmap].
  - destruct (csr_init_ok _ _ _ E) as [M A]. destruct (csr_create_ok _ _ _ E) as (x & C & Ax).
    rewrite M. unfold gen_gpio_PinSignature_init. cbv zeta. cbn [bind MW.bind]. rewrite C. cbn [bind rmap].
    unfold gpio_view, csr_attr. cbn [gpio_Peripheral_port_bus gpio_Peripheral_ports csr_Interface_signature fst snd xorb].
    rewrite Ax. reflexivity.
  - destruct (csr_init_err _ _ _ E) as (e' & M & <-). rewrite M. reflexivity.
Qed.
Print Assumptions tie_gpio_ports.

(* ================================================================ components without a model function:
   the lemmas pin the declaration to the expression written here *)

(* csr.Register: {"element": Out(Element.Signature(width, access))}; width and access are computed by code the
   translator does not read (they are parameters of the generated function, after the two opaque steps) *)
Theorem tie_register_ports : forall a0 acc w,
  rmap (fun c => (absd (csr_Register_ports c), elem_attr (csr_Register_port_element c)))
       (gen_csr_Register_init a0 None acc None w) =
  cv (fun s => ([("element", AIface (OUT (base s)) [])], base s)) (mk_elem w (acc_arg acc)).
Proof.
  intros a0 acc w. unfold gen_csr_Register_init. cbv zeta. cbn [opaque_step bind].
  pose proof (tie_elem_init (VInt w) acc) as T. cbv beta iota in T.
  destruct (gen_csr_Element_Signature_init (VInt w) acc) as [s|e] eqn:E; cbn [rmap bind] in *.
  - destruct (mk_elem w (acc_arg acc)) as [x|e] eqn:M; cbn [cv] in T; [|discriminate T].
    apply Ok_inj in T. unfold id in T. subst x.
    pose proof (tie_elem_create s) as U. rewrite (create_same (AElem _ _) _ M) in U. cbn [cv] in U.
    destruct (gen_csr_Element_Signature_create s) as [[[f y]]|e]; cbn [rmap bind] in *; [|discriminate U].
    apply Ok_inj, pair_inj in U. cbn [fst snd csr_Element_signature] in U. destruct U as [-> U].
    unfold elem_attr. cbn [cv csr_Register_port_element csr_Register_ports csr_Element_signature fst snd xorb].
    rewrite U. reflexivity.
  - destruct (mk_elem w (acc_arg acc)) as [x|e'] eqn:M; cbn [cv] in T; [discriminate T|]. injection T as ->. reflexivity.
Qed.
Print Assumptions tie_register_ports.

(* csr.FieldAction: {"port": In(FieldPort.Signature(shape, access)), **members}, 'port' reserved *)
Lemma absd_set k v d : absd (dict_set k v d) = dict_set k (absm v) (absd d).
Proof.
  induction d as [|[k' v'] d IH]; [reflexivity|]. cbn [dict_set absd map fst snd].
  destruct (String.eqb k' k); [reflexivity|]. cbn [map fst snd]. f_equal. exact IH.
Qed.
Lemma absd_update d e : absd (dict_update d e) = dict_update (absd d) (absd e).
Proof.
  unfold dict_update. revert d. induction e as [|[k v] e IH]; intro d; [reflexivity|].
  cbn [fold_left absd map fst snd]. rewrite IH, absd_set. reflexivity.
Qed.
Lemma absd_has k d : dict_has k (absd d) = dict_has k d.
Proof. unfold dict_has, absd. induction d as [|[k' v] d IH]; [reflexivity|]. cbn [map existsb fst snd]. rewrite IH. reflexivity. Qed.

Theorem tie_fieldaction_ports : forall sl a ms,
  rmap (fun c => (absd (csr_FieldAction_ports c), field_attr (csr_FieldAction_port_port c)))
       (gen_csr_FieldAction_init sl a ms) =
  if dict_has "port" (absd ms) then Err ValueError
  else cv (fun s => (dict_update [("port", AIface (IN (base s)) [])] (absd ms), flip (base s)))
          (mk_field (cv_shapelike sl) (facc_arg a)).
Proof.
  intros sl a ms. unfold gen_csr_FieldAction_init. cbv zeta. rewrite absd_has.
  destruct (dict_has "port" ms); [reflexivity|].
  pose proof (tie_field_init sl a) as T.
  destruct (gen_csr_FieldPort_Signature_init sl a) as [s|e]; cbn [rmap bind] in *.
  - destruct (mk_field _ _) as [x|e]; cbn [cv] in T; [|discriminate T]. apply Ok_inj in T. unfold id in T. subst x.
    unfold gen_csr_FieldPort_Signature_create, gen_csr_FieldPort_init. cbn [bind rmap cv].
    unfold field_attr. cbn [csr_FieldAction_ports csr_FieldAction_port_port csr_FieldPort_signature fst snd xorb].
    rewrite absd_update. reflexivity.
  - destruct (mk_field _ _) as [x|e']; cbn [cv] in T; [discriminate T|]. injection T as ->. reflexivity.
Qed.
Print Assumptions tie_fieldaction_ports.

(* the csr.action classes: which members each hands to FieldAction.__init__, under which access string.
   (`In(shape)` casts the shape first, so a non-shape-like argument is refused before FieldAction sees it;
   the opaque step of RW / RW1C / RW1S is the range check of `init` and the storage Signal.) *)
Definition fa := gen_csr_FieldAction_init.
Definition pin (sh : shape) : pmember gsig := m_port (p_in sh).
Definition pout (sh : shape) : pmember gsig := m_port (p_out sh).
Definition after (o : option exn) (r : res csr_FieldAction) : res csr_FieldAction := let! c := r in let! _ := opaque_step o in Ok c.

Theorem tie_action_ports : forall sl o,
  gen_csr_action_R_init sl =
    (let! sh := shape_cast sl in fa sl (ERaw (RStr "r")) [("r_data", pin sh); ("r_stb", pout (sh_int 1))]) /\
  gen_csr_action_W_init sl =
    (let! sh := shape_cast sl in fa sl (ERaw (RStr "w")) [("w_data", pout sh); ("w_stb", pout (sh_int 1))]) /\
  gen_csr_action_RW_init sl o =
    (let! sh := shape_cast sl in after o (fa sl (ERaw (RStr "rw")) [("data", pout sh)])) /\
  gen_csr_action_RW1C_init sl o =
    (let! sh := shape_cast sl in after o (fa sl (ERaw (RStr "rw")) [("data", pout sh); ("set", pin sh)])) /\
  gen_csr_action_RW1S_init sl o =
    (let! sh := shape_cast sl in after o (fa sl (ERaw (RStr "rw")) [("clear", pin sh); ("data", pout sh)])) /\
  gen_csr_action__Reserved_init sl = fa sl (ERaw (RStr "nc")) [] /\
  gen_gpio_Peripheral_Output__FieldAction_init o =
    after o (fa (SLCast 1 false) (ERaw (RStr "rw")) [("data", pout (sh_int 1)); ("set", pin (sh_int 1)); ("clr", pin (sh_int 1))]).
Proof.
  intros sl o. unfold fa, after, pin, pout.
  unfold gen_csr_action_R_init, gen_csr_action_W_init, gen_csr_action_RW_init, gen_csr_action_RW1C_init,
    gen_csr_action_RW1S_init, gen_csr_action__Reserved_init, gen_gpio_Peripheral_Output__FieldAction_init.
  repeat split; try (destruct (shape_cast sl) as [sh|e]; cbn [bind map fst snd]; [|reflexivity]);
    cbn [map fst snd sh_int];
    match goal with |- context [gen_csr_FieldAction_init ?a ?b ?c] => destruct (gen_csr_FieldAction_init a b c) end;
    reflexivity.
Qed.
Print Assumptions tie_action_ports.

(* ================================================================ default argument values
   (what a caller gets who leaves the argument out; the model's `None` granularity / data_width is this VNone) *)
Theorem tie_defaults :
  gen_event_Source_Signature_default_trigger = ERaw (RStr "level") /\
  gen_event_Source_default_trigger = ERaw (RStr "level") /\
  gen_event_Monitor_default_trigger = ERaw (RStr "level") /\
  gen_csr_event_EventMonitor_default_trigger = ERaw (RStr "level") /\
  trg_arg (ERaw (RStr "level")) = Some TLevel /\
  gen_wishbone_Signature_default_granularity = VNone /\ gen_wishbone_Signature_default_features = [] /\
  gen_wishbone_Interface_default_granularity = VNone /\ gen_wishbone_Interface_default_features = [] /\
  gen_wishbone_Decoder_default_granularity = VNone /\ gen_wishbone_Decoder_default_features = [] /\
  gen_wishbone_Arbiter_default_granularity = VNone /\ gen_wishbone_Arbiter_default_features = [] /\
  gen_wishbone_sram_WishboneSRAM_default_granularity = VNone /\
  gen_csr_wishbone_WishboneCSRBridge_default_data_width = VNone /\
  gen_memory_MemoryMap_default_alignment = VInt 0 /\ gen_csr_Decoder_default_alignment = VInt 0 /\
  gen_wishbone_Decoder_default_alignment = VInt 0 /\ gen_csr_event_EventMonitor_default_alignment = VInt 0 /\
  gen_csr_Builder_default_granularity = VInt 8 /\ gen_gpio_Peripheral_default_input_stages = VInt 2 /\
  gen_csr_FieldAction_default_members = [].
Proof. repeat split; reflexivity. Qed.
Print Assumptions tie_defaults.

(* ================================================================ interface properties: forwarded to the signature *)
Theorem tie_iface_props :
  (forall i, gen_csr_Interface_get_addr_width i = gen_csr_Signature_get_addr_width (snd (csr_Interface_signature i)) /\
             gen_csr_Interface_get_data_width i = gen_csr_Signature_get_data_width (snd (csr_Interface_signature i))) /\
  (forall i, gen_csr_Element_get_width i = gen_csr_Element_Signature_get_width (snd (csr_Element_signature i)) /\
             gen_csr_Element_get_access i = gen_csr_Element_Signature_get_access (snd (csr_Element_signature i))) /\
  (forall i, gen_csr_FieldPort_get_shape i = gen_csr_FieldPort_Signature_get_shape (snd (csr_FieldPort_signature i)) /\
             gen_csr_FieldPort_get_access i = gen_csr_FieldPort_Signature_get_access (snd (csr_FieldPort_signature i))) /\
  (forall i, gen_event_Source_get_trigger i = gen_event_Source_Signature_get_trigger (snd (event_Source_signature i))) /\
  (forall i, gen_wishbone_Interface_get_addr_width i = gen_wishbone_Signature_get_addr_width (snd (wishbone_Interface_signature i)) /\
             gen_wishbone_Interface_get_data_width i = gen_wishbone_Signature_get_data_width (snd (wishbone_Interface_signature i)) /\
             gen_wishbone_Interface_get_granularity i = gen_wishbone_Signature_get_granularity (snd (wishbone_Interface_signature i)) /\
             gen_wishbone_Interface_get_features i = gen_wishbone_Signature_get_features (snd (wishbone_Interface_signature i))).
Proof. repeat split. Qed.
Print Assumptions tie_iface_props.
