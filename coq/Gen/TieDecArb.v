(* Tie lemmas for the constructors and configuration methods of csr.Decoder, wishbone.Decoder and wishbone.Arbiter
   regenerated from /repo's source (DecArbGen.v, rewritten on every run by harness/translate10.py) against
   Model/CsrDecoder.v (add_check), Model/WbDecoder.v (add_ok, add_verdicts, added, map_aw) and Model/Arbiter.v
   (add_ok, first_refused).

   Reading of the statements.  The generated `add` is a function from the state before the call -- the heap `h` of
   memory maps, the `_subs` dict / `_intrs` list -- to (state after, outcome).  `self.bus` is instantiated with what
   `__init__` builds (tie_*_init): an interface of the right kind that has a memory map.  The argument ranges over
   EVERY object the representation has (Lib/BusRep.v: a wishbone / csr interface of any geometry and feature list,
   with or without memory map, flipped or not, or something else).  `add_window` / `align_to` / `MemoryMap` /
   `Signature` are arbitrary functions (parameters).  Loops over a Python set are proved for every iteration order
   (`Permutation order gen_..._set_1`).

   Where the models say less than the code:
   * the models' add_ok / add_check only decide accept / refuse-with-this-exception for an interface; the theorems
     below additionally pin down what the models leave out: a non-interface (or, for the arbiter, a flipped one) is
     TypeError; an interface that was never given a memory map is AttributeError (OtherError) raised BEFORE
     add_window is called and before anything is stored; add_window's own refusal is passed on unchanged;
   * on every Err path the state after equals the state before (`*_refused_no_trace`), on the Ok path exactly one
     entry is stored and the heap is the one add_window returned (`*_recorded`). *)
From Coq Require Import String ZArith List Bool Lia ZifyBool Permutation.
From Soc Require Import Lib.Bits Lib.Res Lib.BusRep Proofs.BusRepLemmas.
From Soc Require Model.CsrDecoder Model.WbDecoder Model.Arbiter.
From SocGen Require Import DecArbGen.
Import ListNotations.
Open Scope Z_scope.

(* ------------------------------------------------------------------ the models' view of the representation *)

Definition wfeat (l : list feature) : WbDecoder.feat :=
  {| WbDecoder.f_err := feat_in ERR l; WbDecoder.f_rty := feat_in RTY l; WbDecoder.f_stall := feat_in STALL l;
     WbDecoder.f_lock := feat_in LOCK l; WbDecoder.f_cti := feat_in CTI l; WbDecoder.f_bte := feat_in BTE l |}.
Definition wgeom (g : wbgeom) : WbDecoder.geom :=
  {| WbDecoder.g_aw := wb_aw g; WbDecoder.g_dw := wb_dw g; WbDecoder.g_g := wb_g g;
     WbDecoder.g_feat := wfeat (wb_feats g) |}.

Definition afeat (l : list feature) : Arbiter.feat :=
  {| Arbiter.f_err := feat_in ERR l; Arbiter.f_rty := feat_in RTY l; Arbiter.f_stall := feat_in STALL l;
     Arbiter.f_lock := feat_in LOCK l; Arbiter.f_cti := feat_in CTI l; Arbiter.f_bte := feat_in BTE l |}.
Definition aicfg (g : wbgeom) : Arbiter.icfg :=
  {| Arbiter.i_aw := wb_aw g; Arbiter.i_dw := wb_dw g; Arbiter.i_g := wb_g g; Arbiter.i_feat := afeat (wb_feats g) |}.
Definition acfg (g : wbgeom) (l : list Arbiter.icfg) : Arbiter.cfg :=
  {| Arbiter.c_aw := wb_aw g; Arbiter.c_dw := wb_dw g; Arbiter.c_g := wb_g g; Arbiter.c_feat := afeat (wb_feats g);
     Arbiter.c_intrs := l |}.

Definition csr_exn (e : CsrDecoder.exn) : exn :=
  match e with CsrDecoder.TypeError => TypeError | CsrDecoder.ValueError => ValueError end.
(* the two facts Model.CsrDecoder.add_check is given about the argument: is it (after unflipping a
   FlippedInterface) a csr.Interface, and its data width (irrelevant when it is not) *)
Definition csr_is_iface (o : bobj) : bool := match o with OCsr _ _ _ => true | _ => false end.
Definition csr_sub_dw (o : bobj) : Z := match o with OCsr _ g _ => csr_dw g | _ => 0 end.

(* one case split on whatever the goal still branches on (an `if`, a `match` on an option / res / pair), innermost
   scrutinee first; leaves: syntactically equal, or contradictory comparisons (lia), or congruence *)
Ltac break :=
  match goal with
  | |- context [match ?x with _ => _ end] =>
      lazymatch x with
      | context [match _ with _ => _ end] => fail
      | _ => first [is_var x; destruct x | destruct x eqn:?]
      end
  end.
Ltac finish := try reflexivity; try (exfalso; lia); try congruence.
Ltac crunch := repeat (cbn; break); cbn; finish.

(* ================================================================== csr.Decoder *)

Theorem tie_csr_dec_add : forall M N F add_window fl d dm h subs sub name addr,
  gen_csr_dec_add M N F add_window (OCsr fl d (Some dm)) h subs sub name addr =
  match CsrDecoder.add_check (csr_dw d) (csr_is_iface sub) (csr_sub_dw sub) with
  | CsrDecoder.Err e => ((h, subs), Err (csr_exn e))
  | CsrDecoder.Ok =>
      match attr_memory_map sub with
      | Err e => ((h, subs), Err e)
      | Ok wm =>
          match add_window h dm wm name addr None with
          | Ok (h', r) => ((h', dict_store wm sub subs), Ok r)
          | Err e => ((h, subs), Err e)
          end
      end
  end.
Proof.
  intros. unfold gen_csr_dec_add, CsrDecoder.add_check.
  destruct sub as [sfl sg smm|sfl sg smm|sfl]; destruct sfl; crunch.
Qed.
Print Assumptions tie_csr_dec_add.

(* a refused add leaves no trace: neither in the decoder's _subs nor (add_window's own promise) in the heap *)
Theorem csr_dec_add_refused_no_trace : forall M N F add_window fl d dm h subs sub name addr e,
  snd (gen_csr_dec_add M N F add_window (OCsr fl d (Some dm)) h subs sub name addr) = Err e ->
  fst (gen_csr_dec_add M N F add_window (OCsr fl d (Some dm)) h subs sub name addr) = (h, subs).
Proof.
  intros *. rewrite tie_csr_dec_add. crunch.
Qed.
Print Assumptions csr_dec_add_refused_no_trace.

(* the subordinate is recorded iff add_window succeeded, under the key of its memory map, after the call *)
Theorem csr_dec_add_recorded : forall M N F add_window fl d dm h subs sub name addr r,
  snd (gen_csr_dec_add M N F add_window (OCsr fl d (Some dm)) h subs sub name addr) = Ok r ->
  exists wm h', attr_memory_map sub = Ok wm /\ add_window h dm wm name addr None = Ok (h', r) /\
    fst (gen_csr_dec_add M N F add_window (OCsr fl d (Some dm)) h subs sub name addr) = (h', dict_store wm sub subs).
Proof.
  intros *. rewrite tie_csr_dec_add. unfold CsrDecoder.add_check.
  destruct sub as [sfl sg smm|sfl sg smm|sfl]; cbn; try discriminate.
  destruct (csr_dw sg =? csr_dw d); cbn; [|discriminate].
  destruct smm as [wm|]; cbn; [|discriminate].
  destruct (add_window h dm wm name addr None) as [[h' r']|e'] eqn:E; cbn; [|discriminate].
  intros H. injection H as <-. exists wm, h'. repeat split. exact E.
Qed.
Print Assumptions csr_dec_add_recorded.

(* the defaults written in the `def` *)
Theorem tie_csr_dec_add_defaults : forall N,
  gen_csr_dec_add_default_name N = None /\ gen_csr_dec_add_default_addr N = VNone.
Proof. intros. split; reflexivity. Qed.
Print Assumptions tie_csr_dec_add_defaults.

(* align_to delegates to the memory map of self.bus, unchanged *)
Theorem tie_csr_dec_align_to : forall M N F align_to fl d dm h alignment,
  gen_csr_dec_align_to M N F align_to (OCsr fl d (Some dm)) h alignment =
  match align_to h dm alignment with Ok (h', r) => (h', Ok r) | Err e => (h, Err e) end.
Proof. intros. unfold gen_csr_dec_align_to. crunch. Qed.
Print Assumptions tie_csr_dec_align_to.

(* __init__: the bus is In(Signature(addr_width, data_width)), i.e. flipped; its memory map is
   MemoryMap(addr_width, data_width, alignment); no subordinate yet.  A refusing Signature / MemoryMap is passed on. *)
Theorem tie_csr_dec_init : forall M N F csr_signature mm_new h aw dw al,
  gen_csr_dec_init M N F csr_signature mm_new h aw dw al =
  (let! g := csr_signature aw dw in
   let! '(h', m) := mm_new h (VInt aw) (VInt dw) al in
   Ok (h', OCsr true g (Some m), [])).
Proof. intros. unfold gen_csr_dec_init. crunch. Qed.
Print Assumptions tie_csr_dec_init.

Theorem tie_csr_dec_init_defaults : forall N, gen_csr_dec_init_default_alignment N = VInt 0.
Proof. reflexivity. Qed.
Print Assumptions tie_csr_dec_init_defaults.

(* ================================================================== wishbone.Decoder *)

(* the feature part of the models' add_ok, on the representation: every optional OUTPUT of the subordinate needs
   the corresponding input on the decoder's bus *)
Definition feat_ok (df sf : list feature) : bool :=
  implb (feat_in ERR sf) (feat_in ERR df) && (implb (feat_in RTY sf) (feat_in RTY df) &&
  implb (feat_in STALL sf) (feat_in STALL df)).

Lemma wb_add_ok_split : forall d s sp,
  WbDecoder.add_ok (wgeom d) (wgeom s) sp =
  negb (wb_g d <? wb_g s) && (if sp then wb_g s =? wb_dw s else wb_dw s =? wb_dw d) && feat_ok (wb_feats d) (wb_feats s).
Proof.
  intros. unfold WbDecoder.add_ok, feat_ok. cbn [wgeom wfeat WbDecoder.g_g WbDecoder.g_dw WbDecoder.g_feat
    WbDecoder.f_err WbDecoder.f_rty WbDecoder.f_stall].
  rewrite <- !andb_assoc. reflexivity.
Qed.

Local Arguments feat_in : simpl never.

(* the three feature checks run in the order in which Python iterates the set display: any order gives the same *)
Theorem tie_wb_dec_add : forall M N F add_window order fl d dm h subs sub name addr sparse,
  Permutation order gen_wb_dec_add_set_1 ->
  gen_wb_dec_add M N F add_window order (OWb fl d (Some dm)) h subs sub name addr sparse =
  match sub with
  | OWb _ s smm =>
      if WbDecoder.add_ok (wgeom d) (wgeom s) sparse then
        match smm with
        | None => ((h, subs), Err OtherError)
        | Some wm =>
            match add_window h dm wm name addr (Some sparse) with
            | Ok (h', r) => ((h', dict_store wm sub subs), Ok r)
            | Err e => ((h, subs), Err e)
            end
        end
      else ((h, subs), Err ValueError)
  | _ => ((h, subs), Err TypeError)
  end.
Proof.
  intros * Hperm. unfold gen_wb_dec_add.
  destruct sub as [sfl sg smm|sfl sg smm|sfl]; destruct sfl; cbn -[loop_each hasattr_port enum_of_string];
    try reflexivity.
  all: erewrite (loop_each_perm _ _ ValueError order _ Hperm); unfold gen_wb_dec_add_set_1;
    [ | repeat apply Forall_cons; try apply Forall_nil; cbn;
        destruct (feat_in ERR (wb_feats sg)), (feat_in ERR (wb_feats d)), (feat_in RTY (wb_feats sg)),
          (feat_in RTY (wb_feats d)), (feat_in STALL (wb_feats sg)), (feat_in STALL (wb_feats d)); cbn; auto ].
  all: match goal with
       | |- context [loop_each ?b ?l] =>
           assert (Hloop : loop_each b l = if feat_ok (wb_feats d) (wb_feats sg) then Ok tt else Err ValueError)
             by (unfold feat_ok; cbn;
                 destruct (feat_in ERR (wb_feats sg)), (feat_in ERR (wb_feats d)), (feat_in RTY (wb_feats sg)),
                   (feat_in RTY (wb_feats d)), (feat_in STALL (wb_feats sg)), (feat_in STALL (wb_feats d));
                 reflexivity);
           rewrite Hloop; clear Hloop
       end.
  all: rewrite wb_add_ok_split; generalize (feat_ok (wb_feats d) (wb_feats sg)); intros fk; crunch.
Qed.
Print Assumptions tie_wb_dec_add.

Theorem wb_dec_add_refused_no_trace : forall M N F add_window order fl d dm h subs sub name addr sparse e,
  Permutation order gen_wb_dec_add_set_1 ->
  snd (gen_wb_dec_add M N F add_window order (OWb fl d (Some dm)) h subs sub name addr sparse) = Err e ->
  fst (gen_wb_dec_add M N F add_window order (OWb fl d (Some dm)) h subs sub name addr sparse) = (h, subs).
Proof.
  intros * Hperm. rewrite (tie_wb_dec_add _ _ _ _ _ _ _ _ _ _ _ _ _ _ Hperm).
  generalize (WbDecoder.add_ok (wgeom d)). intros ok. crunch.
Qed.
Print Assumptions wb_dec_add_refused_no_trace.

Theorem wb_dec_add_recorded : forall M N F add_window order fl d dm h subs sub name addr sparse r,
  Permutation order gen_wb_dec_add_set_1 ->
  snd (gen_wb_dec_add M N F add_window order (OWb fl d (Some dm)) h subs sub name addr sparse) = Ok r ->
  exists wm h', attr_memory_map sub = Ok wm /\ add_window h dm wm name addr (Some sparse) = Ok (h', r) /\
    fst (gen_wb_dec_add M N F add_window order (OWb fl d (Some dm)) h subs sub name addr sparse)
    = (h', dict_store wm sub subs).
Proof.
  intros * Hperm. rewrite (tie_wb_dec_add _ _ _ _ _ _ _ _ _ _ _ _ _ _ Hperm).
  destruct sub as [sfl sg smm|sfl sg smm|sfl]; cbn; try discriminate.
  destruct (WbDecoder.add_ok (wgeom d) (wgeom sg) sparse); cbn; [|discriminate].
  destruct smm as [wm|]; cbn; [|discriminate].
  destruct (add_window h dm wm name addr (Some sparse)) as [[h' r']|e'] eqn:E; cbn; [|discriminate].
  intros H. injection H as <-. exists wm, h'. repeat split. exact E.
Qed.
Print Assumptions wb_dec_add_recorded.

(* the verdict of add()'s OWN rules, as harness/engines/wbdec.py asks for it (the same interface offered to a
   decoder whose memory map cannot refuse): accepted iff the model's add_ok *)
Theorem tie_wb_dec_add_verdict : forall M N F add_window order fl d dm h subs sfl s wm name addr sparse,
  Permutation order gen_wb_dec_add_set_1 ->
  (forall h a b n ad sp, exists x, add_window h a b n ad sp = Ok x) ->
  is_ok (snd (gen_wb_dec_add M N F add_window order (OWb fl d (Some dm)) h subs (OWb sfl s (Some wm)) name addr sparse))
  = WbDecoder.add_ok (wgeom d) (wgeom s) sparse.
Proof.
  intros * Hperm Hnever. rewrite (tie_wb_dec_add _ _ _ _ _ _ _ _ _ _ _ _ _ _ Hperm).
  destruct (Hnever h dm wm name addr (Some sparse)) as [[h' r] ->].
  destruct (WbDecoder.add_ok (wgeom d) (wgeom s) sparse); reflexivity.
Qed.
Print Assumptions tie_wb_dec_add_verdict.

Theorem tie_wb_dec_add_defaults : forall N,
  gen_wb_dec_add_default_name N = None /\ gen_wb_dec_add_default_addr N = VNone /\
  gen_wb_dec_add_default_sparse N = false.
Proof. intros. repeat split; reflexivity. Qed.
Print Assumptions tie_wb_dec_add_defaults.

Theorem tie_wb_dec_align_to : forall M N F align_to fl d dm h alignment,
  gen_wb_dec_align_to M N F align_to (OWb fl d (Some dm)) h alignment =
  match align_to h dm alignment with Ok (h', r) => (h', Ok r) | Err e => (h, Err e) end.
Proof. intros. unfold gen_wb_dec_align_to. crunch. Qed.
Print Assumptions tie_wb_dec_align_to.

(* __init__.  `granularity=None` means data_width.  For a geometry the Signature constructor accepts and reports
   faithfully (its widths are the arguments; data_width // granularity is a power of two: both are in {8,16,32,64},
   wishbone/bus.py:102-108 - Signature.__init__ is not translated, these are hypotheses), the bus is
   In(Signature(...)) and its memory map is MemoryMap(addr_width = the model's map_aw, data_width = granularity,
   alignment).  A refusing Signature / MemoryMap is passed on. *)
Theorem tie_wb_dec_init : forall M N F wb_signature mm_new h aw dw g feats al name geom k,
  let g' := if bi_is_none g then VInt dw else g in
  wb_signature aw dw g' feats = Ok geom ->
  wb_aw geom = aw -> wb_dw geom = dw -> g' = VInt (wb_g geom) -> 0 <= k -> dw / wb_g geom = 2 ^ k ->
  gen_wb_dec_init M N F wb_signature mm_new h aw dw g feats al name =
  (let! '(h', m) := mm_new h (VInt (WbDecoder.map_aw (wgeom geom))) (VInt (WbDecoder.g_g (wgeom geom))) al in
   Ok (h', OWb true geom (Some m), [])).
Proof.
  intros * Hsig Haw Hdw Hg Hk Hpow. unfold gen_wb_dec_init. subst g' aw dw.
  unfold WbDecoder.map_aw, WbDecoder.gbits; cbn [wgeom WbDecoder.g_aw WbDecoder.g_dw WbDecoder.g_g].
  rewrite Hpow, Z.log2_pow2 by exact Hk.
  (* both values of `granularity is None`; the arithmetic of the address width up to rearrangement *)
  destruct (bi_is_none g); cbn [bind]; rewrite Hsig; cbn [bind];
    [injection Hg as Hg; rewrite Hg in Hpow |- * | subst g]; cbn [bi_zof];
    rewrite Hpow, (py_exact_log2_pow2 k Hk); cbn [bind];
    match goal with
    | |- context [mm_new h (VInt ?a) ?x al] =>
        replace a with (Z.max 1 (wb_aw geom + k)) by lia;
        destruct (mm_new h (VInt (Z.max 1 (wb_aw geom + k))) x al) as [[h' m]|e]
    end; try reflexivity.
Qed.
Print Assumptions tie_wb_dec_init.

Theorem tie_wb_dec_init_refused : forall M N F wb_signature mm_new h aw dw g feats al name e,
  wb_signature aw dw (if bi_is_none g then VInt dw else g) feats = Err e ->
  gen_wb_dec_init M N F wb_signature mm_new h aw dw g feats al name = Err e.
Proof.
  intros * Hsig. unfold gen_wb_dec_init. destruct (bi_is_none g); cbn [bind]; rewrite Hsig; reflexivity.
Qed.
Print Assumptions tie_wb_dec_init_refused.

Theorem tie_wb_dec_init_defaults : forall N,
  gen_wb_dec_init_default_granularity N = VNone /\ gen_wb_dec_init_default_alignment N = VInt 0.
Proof. intros. split; reflexivity. Qed.
Print Assumptions tie_wb_dec_init_defaults.

(* ================================================================== wishbone.Arbiter *)

(* ERR / RTY of the shared bus must exist on the initiator (the direction opposite to the decoder's rule);
   STALL is not checked *)
Definition arb_feat_ok (bf intf : list feature) : bool :=
  implb (feat_in ERR bf) (feat_in ERR intf) && implb (feat_in RTY bf) (feat_in RTY intf).

Lemma arb_add_ok_split : forall b i l,
  Arbiter.add_ok (acfg b l) (aicfg i) =
  (wb_aw i =? wb_aw b) && negb (wb_g i <? wb_g b) && (wb_dw i =? wb_dw b) && arb_feat_ok (wb_feats b) (wb_feats i).
Proof.
  intros. unfold Arbiter.add_ok, arb_feat_ok. cbn [acfg aicfg afeat Arbiter.i_aw Arbiter.i_dw Arbiter.i_g
    Arbiter.i_feat Arbiter.c_aw Arbiter.c_dw Arbiter.c_g Arbiter.c_feat Arbiter.f_err Arbiter.f_rty].
  rewrite <- !andb_assoc. reflexivity.
Qed.

(* the argument must be a wishbone.Interface itself: a FlippedInterface around one is TypeError (no unflipping
   here, unlike Decoder.add).  `l` (the initiators already added) is irrelevant to the verdict. *)
Theorem tie_arb_add : forall M N F order bfl b bmm intrs intr l,
  Permutation order gen_arb_add_set_1 ->
  gen_arb_add M N F order (OWb bfl b bmm) intrs intr =
  match intr with
  | OWb false i _ =>
      if Arbiter.add_ok (acfg b l) (aicfg i) then (intrs ++ [intr], Ok tt) else (intrs, Err ValueError)
  | _ => (intrs, Err TypeError)
  end.
Proof.
  intros * Hperm. unfold gen_arb_add.
  destruct intr as [ifl ig imm|ifl ig imm|ifl]; try destruct ifl; cbn -[loop_each hasattr_port enum_of_string];
    try reflexivity.
  erewrite (loop_each_perm _ _ ValueError order _ Hperm); unfold gen_arb_add_set_1;
    [ | repeat apply Forall_cons; try apply Forall_nil; cbn;
        destruct (feat_in ERR (wb_feats ig)), (feat_in ERR (wb_feats b)), (feat_in RTY (wb_feats ig)),
          (feat_in RTY (wb_feats b)); cbn; auto ].
  match goal with
  | |- context [loop_each ?bd ?ls] =>
      assert (Hloop : loop_each bd ls = if arb_feat_ok (wb_feats b) (wb_feats ig) then Ok tt else Err ValueError)
        by (unfold arb_feat_ok; cbn;
            destruct (feat_in ERR (wb_feats ig)), (feat_in ERR (wb_feats b)), (feat_in RTY (wb_feats ig)),
              (feat_in RTY (wb_feats b)); reflexivity);
      rewrite Hloop; clear Hloop
  end.
  rewrite arb_add_ok_split; generalize (arb_feat_ok (wb_feats b) (wb_feats ig)); intros fk.
  unfold list_append. crunch.
Qed.
Print Assumptions tie_arb_add.

Theorem arb_add_refused_no_trace : forall M N F order bfl b bmm intrs intr e,
  Permutation order gen_arb_add_set_1 ->
  snd (gen_arb_add M N F order (OWb bfl b bmm) intrs intr) = Err e ->
  fst (gen_arb_add M N F order (OWb bfl b bmm) intrs intr) = intrs.
Proof.
  intros * Hperm. rewrite (tie_arb_add _ _ _ _ _ _ _ _ _ [] Hperm).
  generalize (Arbiter.add_ok (acfg b [])). intros ok. crunch.
Qed.
Print Assumptions arb_add_refused_no_trace.

Theorem arb_add_recorded : forall M N F order bfl b bmm intrs intr,
  Permutation order gen_arb_add_set_1 ->
  snd (gen_arb_add M N F order (OWb bfl b bmm) intrs intr) = Ok tt ->
  fst (gen_arb_add M N F order (OWb bfl b bmm) intrs intr) = intrs ++ [intr].
Proof.
  intros * Hperm. rewrite (tie_arb_add _ _ _ _ _ _ _ _ _ [] Hperm).
  generalize (Arbiter.add_ok (acfg b [])). intros ok. crunch.
Qed.
Print Assumptions arb_add_recorded.

(* a sequence of add() calls, stopping at the first exception (what a caller that does not catch sees): the index
   of the first refused initiator is the model's first_refused, and _intrs is exactly the accepted prefix *)
Fixpoint arb_adds (M N F : Type) (order : list string) (bus : bobj) (intrs : list bobj) (k : nat) (l : list bobj)
  : list bobj * option (nat * exn) :=
  match l with
  | [] => (intrs, None)
  | x :: l' =>
      match gen_arb_add M N F order bus intrs x with
      | (intrs', Ok _) => arb_adds M N F order bus intrs' (S k) l'
      | (intrs', Err e) => (intrs', Some (k, e))
      end
  end.

Definition as_intr (p : wbgeom * option Z) : bobj := OWb false (fst p) (snd p).

Theorem tie_arb_first_refused : forall M N F order bfl b bmm (gs : list (wbgeom * option Z)) intrs k,
  Permutation order gen_arb_add_set_1 ->
  arb_adds M N F order (OWb bfl b bmm) intrs k (map as_intr gs) =
  match Arbiter.first_refused (acfg b (map (fun p => aicfg (fst p)) gs)) k (map (fun p => aicfg (fst p)) gs) with
  | Some j => (intrs ++ firstn (j - k) (map as_intr gs), Some (j, ValueError))
  | None => (intrs ++ map as_intr gs, None)
  end.
Proof.
  intros * Hperm. generalize (map (fun p => aicfg (fst p)) gs) at 1. intros l0. revert intrs k.
  induction gs as [|[g m] gs IH]; intros intrs k; cbn [map arb_adds Arbiter.first_refused as_intr fst snd].
  - rewrite app_nil_r. reflexivity.
  - rewrite (tie_arb_add _ _ _ _ _ _ _ _ _ l0 Hperm). change (as_intr (g, m)) with (OWb false g m).
    cbv beta iota.
    destruct (Arbiter.add_ok (acfg b l0) (aicfg g)); cbv beta iota.
    + rewrite IH.
      destruct (Arbiter.first_refused (acfg b l0) (S k) (map (fun p => aicfg (fst p)) gs)) as [j|] eqn:Ej.
      * assert (Hj : (S k <= j)%nat).
        { clear - Ej. revert k Ej. induction (map (fun p => aicfg (fst p)) gs) as [|x xs IHx]; intros k Ej;
            cbn [Arbiter.first_refused] in Ej; [discriminate|].
          destruct (Arbiter.add_ok (acfg b l0) x); [apply IHx in Ej; lia|injection Ej as <-; lia]. }
        replace (j - k)%nat with (S (j - S k)) by lia. cbn [firstn]. rewrite <- app_assoc. reflexivity.
      * rewrite <- app_assoc. reflexivity.
    + rewrite Nat.sub_diag. cbn [firstn]. rewrite app_nil_r. reflexivity.
Qed.
Print Assumptions tie_arb_first_refused.

(* __init__: the shared bus is Out(Signature(addr_width, data_width, granularity, features)) - granularity is
   handed to Signature as given (None included) -, no initiator yet *)
Theorem tie_arb_init : forall M N F wb_signature aw dw g feats,
  gen_arb_init M N F wb_signature aw dw g feats =
  (let! geom := wb_signature aw dw g feats in Ok (OWb false geom None, [])).
Proof. intros. unfold gen_arb_init. crunch. Qed.
Print Assumptions tie_arb_init.

Theorem tie_arb_init_defaults : forall N, gen_arb_init_default_granularity N = VNone.
Proof. reflexivity. Qed.
Print Assumptions tie_arb_init_defaults.

(* ================================================================== sequences of Decoder.add calls *)

(* one add() call as harness/engines/wbdec.py makes it (it catches the exception and goes on with the next one):
   flipped?, geometry, identity of the interface's memory map, name, addr, sparse *)
Definition wb_att (N : Type) : Type := (bool * wbgeom * Z * option N * pyint * bool)%type.
Definition att_obj {N} (a : wb_att N) : bobj := let '(fl, g, wm, _, _, _) := a in OWb fl g (Some wm).

Fixpoint wb_adds (M N F : Type) add_window (order : list string) (bus : bobj) (h : M) (subs : list (Z * bobj))
  (l : list (wb_att N)) : (M * list (Z * bobj)) * list (res (Z * Z * Z)) :=
  match l with
  | [] => ((h, subs), [])
  | a :: l' =>
      let '(fl, g, wm, nm, ad, sp) := a in
      let '((h', subs'), r) := gen_wb_dec_add M N F add_window order bus h subs (att_obj a) nm ad sp in
      let '(st, rs) := wb_adds M N F add_window order bus h' subs' l' in (st, r :: rs)
  end.

(* the model's view of an attempt and of what it returned; waw = address width of the interface's memory map *)
Definition m_att {N} (waw : Z -> Z) (a : wb_att N) (r : res (Z * Z * Z)) : WbDecoder.attempt :=
  let '(_, g, wm, _, _, sp) := a in
  (wgeom g, sp,
   match r with
   | Ok (s, e, ratio) => Some {| WbDecoder.w_start := s; WbDecoder.w_stop := e; WbDecoder.w_ratio := ratio;
                                 WbDecoder.w_aw := waw wm |}
   | Err _ => None
   end).
Fixpoint m_atts {N} (waw : Z -> Z) (l : list (wb_att N)) (rs : list (res (Z * Z * Z))) : list WbDecoder.attempt :=
  match l, rs with
  | a :: l', r :: rs' => m_att waw a r :: m_atts waw l' rs'
  | _, _ => []
  end.

(* the attempts that returned normally, in call order *)
Fixpoint accepted {N} (l : list (wb_att N)) (rs : list (res (Z * Z * Z))) : list (wb_att N) :=
  match l, rs with
  | a :: l', Ok _ :: rs' => a :: accepted l' rs'
  | _ :: l', Err _ :: rs' => accepted l' rs'
  | _, _ => []
  end.

(* after any sequence of add() calls on interfaces that have memory maps: (1) the verdicts of add()'s own rules are
   the model's add_verdicts; (2) the subordinates the model's `added` keeps are exactly the calls that returned
   normally, with their geometry and sparse flag, in call order; (3) `_subs` holds exactly those, stored under
   their memory maps in that order.  Whatever add_window does. *)
Theorem tie_wb_added : forall M N F add_window order fl d dm waw (l : list (wb_att N)) h subs,
  Permutation order gen_wb_dec_add_set_1 ->
  let '((h', subs'), rs) := wb_adds M N F add_window order (OWb fl d (Some dm)) h subs l in
  let atts := m_atts waw l rs in
  WbDecoder.add_verdicts (wgeom d) atts = map (fun a => let '(_, g, _, _, _, sp) := a in
                                                        WbDecoder.add_ok (wgeom d) (wgeom g) sp) l /\
  map (fun s => (WbDecoder.s_geom s, WbDecoder.s_sparse s)) (WbDecoder.added (wgeom d) atts) =
    map (fun a => let '(_, g, _, _, _, sp) := a in (wgeom g, sp)) (accepted l rs) /\
  subs' = fold_left (fun acc a => let '(_, _, wm, _, _, _) := a in dict_store wm (att_obj a) acc) (accepted l rs) subs.
Proof.
  intros * Hperm. revert h subs.
  induction l as [|[[[[[sfl g] wm] nm] ad] sp] l IH]; intros h subs; cbn [wb_adds].
  - cbn. repeat split.
  - unfold att_obj at 1. rewrite (tie_wb_dec_add _ _ _ _ _ _ _ _ _ _ _ _ _ _ Hperm).
    unfold WbDecoder.add_verdicts, WbDecoder.added in *.
    assert (Hgo : forall h1 subs1 r1,
      (match r1 with Ok _ => true | Err _ => false end = false -> subs1 = subs) ->
      (forall x, r1 = Ok x -> WbDecoder.add_ok (wgeom d) (wgeom g) sp = true /\
                              subs1 = dict_store wm (OWb sfl g (Some wm)) subs) ->
      let '(h', subs', rs) :=
        let '(st, rs) := wb_adds M N F add_window order (OWb fl d (Some dm)) h1 subs1 l in (st, r1 :: rs) in
      map (fun '(g0, sp0, _) => WbDecoder.add_ok (wgeom d) g0 sp0)
        (m_atts waw ((sfl, g, wm, nm, ad, sp) :: l) rs) =
      map (fun '(_, g0, _, _, _, sp0) => WbDecoder.add_ok (wgeom d) (wgeom g0) sp0) ((sfl, g, wm, nm, ad, sp) :: l) /\
      map (fun s0 => (WbDecoder.s_geom s0, WbDecoder.s_sparse s0))
        (flat_map (fun '(g0, sp0, ow) =>
           if WbDecoder.add_ok (wgeom d) g0 sp0
           then match ow with
                | Some w => [{| WbDecoder.s_geom := g0; WbDecoder.s_sparse := sp0; WbDecoder.s_win := w |}]
                | None => []
                end
           else []) (m_atts waw ((sfl, g, wm, nm, ad, sp) :: l) rs)) =
      map (fun '(_, g0, _, _, _, sp0) => (wgeom g0, sp0)) (accepted ((sfl, g, wm, nm, ad, sp) :: l) rs) /\
      subs' = fold_left (fun acc '((_, _, wm0, _, _, _) as a) => dict_store wm0 (att_obj a) acc)
                (accepted ((sfl, g, wm, nm, ad, sp) :: l) rs) subs).
    { intros h1 subs1 r1 Herr Hok. specialize (IH h1 subs1).
      destruct (wb_adds M N F add_window order (OWb fl d (Some dm)) h1 subs1 l) as [[h' subs'] rs].
      destruct IH as (IH1 & IH2 & IH3).
      cbn [m_atts m_att accepted map flat_map fold_left att_obj]. rewrite IH1.
      destruct r1 as [[[s e] ratio]|e1].
      - destruct (Hok _ eq_refl) as [Eok ->]. rewrite Eok. cbn [app map WbDecoder.s_geom WbDecoder.s_sparse].
        rewrite IH2. cbn [fold_left att_obj]. repeat split. exact IH3.
      - rewrite (Herr eq_refl) in IH3.
        destruct (WbDecoder.add_ok (wgeom d) (wgeom g) sp); cbn [app]; rewrite IH2; repeat split; exact IH3. }
    destruct (WbDecoder.add_ok (wgeom d) (wgeom g) sp) eqn:Eok.
    + destruct (add_window h dm wm nm ad (Some sp)) as [[h1 r]|e1].
      * apply Hgo; [discriminate|]. intros x Hx. split; reflexivity.
      * apply Hgo; [reflexivity|discriminate].
    + apply Hgo; [reflexivity|discriminate].
Qed.
Print Assumptions tie_wb_added.
