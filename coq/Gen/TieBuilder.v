(* Tie lemmas for csr.Builder: Builder.add and the per-register arithmetic of Builder.as_memory_map, regenerated
   from /repo's source by harness/translate2.py (BuilderGen.v, rewritten on every run), against Model/Builder.v. *)
From Coq Require Import ZArith List Bool Lia.
From Soc Require Import Lib.Bits Lib.Res Model.MemoryMap Model.Builder.
From SocGen Require Import BuilderGen.
Import ListNotations.
Open Scope Z_scope.

Definition off_of (v : pyint) : option Z := match v with VInt z => Some z | _ => None end.

(* Builder.add: same refusals in the same order; an accepted call records exactly the offset argument *)
Theorem tie_builder_add : forall b nm r off,
  badd b nm r off =
  match r with
  | RNotReg =>
      match gen_builder_add false (bd_frozen b) (valid_str nm) false (bd_dw b) (bd_gran b) off with
      | Ok _ => Err OtherError | Err e => Err e end
  | RReg id w =>
      match gen_builder_add true (bd_frozen b) (valid_str nm) (has_reg b id) (bd_dw b) (bd_gran b) off with
      | Ok o => Ok (set_regs b (bd_regs b ++ [{| b_id := id; b_width := w;
                                                b_name := bd_stack b ++ [PStr (atom_of nm)];
                                                b_off := off_of o |}]))
      | Err e => Err e
      end
  end.
Proof.
  intros b nm r off. unfold badd, gen_builder_add. destruct r as [id w|]; cbn [negb]; [|reflexivity].
  destruct (bd_frozen b); cbn [negb check bind]; [reflexivity|].
  destruct (valid_str nm); cbn [negb check bind]; [|reflexivity].
  destruct off as [z| |]; cbn [is_none is_int BuilderGen.zof MemoryMap.zof nonneg negb andb check bind off_of].
  - rewrite Z.geb_leb. destruct (0 <=? z); cbn [negb check bind]; [|reflexivity].
    destruct (z mod (bd_dw b / bd_gran b) =? 0); cbn [negb check bind]; [|reflexivity].
    destruct (has_reg b id); reflexivity.
  - destruct (has_reg b id); reflexivity.
  - reflexivity.
Qed.
Print Assumptions tie_builder_add.

(* Builder.as_memory_map: address, size and alignment handed to add_resource for each register *)
Theorem tie_builder_place : forall b r,
  reg_size b r = gen_builder_size (bd_dw b) (b_width r) /\
  reg_addr b r = match b_off r with
                 | Some o => VInt (gen_builder_addr (bd_gran b) (bd_dw b) o)
                 | None => VNone
                 end /\
  ceil_log2 (reg_size b r) = gen_builder_alignment (gen_builder_size (bd_dw b) (b_width r)).
Proof.
  (* operands of the source's sums and products may be written in either order *)
  intros b r. unfold reg_size, reg_addr, gen_builder_size, gen_builder_addr, gen_builder_alignment.
  destruct (b_off r); repeat split; try reflexivity; repeat (f_equal; try lia).
Qed.
Print Assumptions tie_builder_place.

Theorem tie_builder_loop : forall b m r l,
  add_regs b m (r :: l) =
  bind (add_resource m (b_id r) true (NTuple (map raw_of_part (b_name r)))
          (VInt (gen_builder_size (bd_dw b) (b_width r)))
          (match b_off r with Some o => VInt (gen_builder_addr (bd_gran b) (bd_dw b) o) | None => VNone end)
          (VInt (gen_builder_alignment (gen_builder_size (bd_dw b) (b_width r)))))
       (fun '(m', _) => add_regs b m' l).
Proof. intros. cbn [add_regs]. destruct (tie_builder_place b r) as (-> & -> & _). reflexivity. Qed.
Print Assumptions tie_builder_loop.
