(* Tie lemmas for harness/translate8.py: Gen/ShadowGen.v (regenerated from csr/bus.py on every run) against
   Model/Mux.v (and Model/Elab.v's mux_check).  Everything is for ALL inputs; preconditions are spelled out.

   What is proved, method by method
   _Shadow.__init__     tie_shadow_init: accepted exactly on the valid arguments, and then the empty shadow (size =
                        init_size [], mutable empty set, no chunks).
   _Shadow.add          tie_shadow_add (one call, both branches: a frozen set only checks membership, Elab.add_now);
                        tie_shadow_add_all: adding the registers of a list with pairwise different ranges gives
                        size = Mux.init_size regs and the set of their ranges.
                        PRECONDITION NoDup (map rng_of regs): a Python set merges equal ranges, the model's
                        `Z.of_nat (length regs)` would count them twice; a memory map never yields equal ranges.
   decode_address / encode_offset   tie_decode_address, tie_encode_offset: the assert, then Mux.decode / Mux.encode
                        (through Tie.tie_shadow_decode / tie_shadow_encode of the kernel stage).
   Chunk                tie_chunk, tie_chunk_registers: construction never fails, registers() yields what was given.
   _Shadow.prepare      tie_prepare: for ANY enumeration `elems` of the set (Permutation: the order in which a Python
                        set iterates is arbitrary; sorted() makes the loop independent of it, ShadowTie.py_sorted_perm)
                        and registers in ascending order (what resources() yields; ShadowTie.layout_ascending), whenever
                        the model's fuelled loop returns Some S' the translated recursion with the SAME fuel returns the
                        frozen shadow of size S' whose _chunks dict is, in dict order, the model's chunk table
                        (tie_chunk_table: keys = Mux.table, registers = filter (touches S') regs).  The inner `break`
                        leaves the outer loop running; that the flag nevertheless equals `can_grow && unbalanced` is
                        ShadowTie.prepare_loops.  Out of fuel is Err OtherError (RecursionError), the model's None.
                        Order independence of the MODEL (the size does not depend on the order registers were added):
                        ShadowTie.shadow_size_perm.
   _Shadow.chunks       tie_shadow_chunks: the dict items in order; None -> OtherError (AttributeError).
   _check_memory_map    tie_check_memory_map = Elab.mux_check (TypeError, ValueError, then the AttributeError).
   Multiplexer.__init__ tie_mux_init: check first, then the two shadows (asserts of _Shadow.__init__), then the bus.
   elaborate            tie_elaborate (first call, from the constructor's object) and tie_elaborate_again (any later
                        call: the already-prepared branches): the shadows end up prepared with the sizes of Mux.mk_cfg
                        and the statement tree is `skeleton`, written below by hand in the order of the code over
                        the model's chunk tables: per read chunk one Switch with one Case per register touching it at
                        bus address encode r o, element.r_stb raised in that Case iff encode r o = r_start r, the word
                        word_select(encode r o - r_start r); per write chunk the same with element.w_stb at
                        encode r o = r_stop r - 1.  ShadowTie.rsites / wsites relate these to elem_rstb, wstb_next,
                        ren_next and wen of the model.
   The model has no exceptions for the shadow asserts; where the code asserts, the lemma states the assert. *)
From Coq Require Import ZArith List Bool Lia ZifyBool Permutation Sorted String.
From Soc Require Import Lib.Bits Lib.Res Lib.PyShadow Model.Mux Model.MuxSpec Proofs.ShadowHash Proofs.MuxTable
  Proofs.MuxPrepare Proofs.ShadowTie.
From Soc Require Model.Elab.
From SocGen Require Import Kernels Tie ShadowGen.
Import ListNotations.
Open Scope Z_scope.

(* every remaining `if b` whose condition is decided by the hypotheses (whatever comparison the source spells) *)
Ltac settle_ifs :=
  repeat match goal with
         | |- context [if ?b then _ else _] => first [replace b with true by lia | replace b with false by lia]
         end.

(* ------------------------------------------------------------------ _Shadow.__init__ *)
Definition valid_shadow_args (g ov : pyint) (nm : pystr) : bool :=
  is_str nm && (is_int g && (0 <=? zof g)) && (is_none ov || (is_int ov && (0 <=? zof ov))).

Theorem tie_shadow_init : forall g ov nm,
  gen_shadow_init g ov nm =
  if valid_shadow_args g ov nm then Ok (mk_shadow nm g ov set_new (init_size []) None) else Err AssertionError.
Proof.
  intros g ov nm. unfold gen_shadow_init, valid_shadow_args.
  destruct nm; destruct g; destruct ov; cbn; try reflexivity;
    repeat match goal with |- context [?a >=? ?b] => replace (a >=? b) with (b <=? a) by lia end;
    repeat match goal with |- context [0 <=? ?z] => destruct (0 <=? z) end; reflexivity.
Qed.
Print Assumptions tie_shadow_init.

(* ------------------------------------------------------------------ decode_address / encode_offset: the asserts *)
Theorem tie_decode_address : forall s r a,
  gen_shadow_decode_address s a (rng_of r) =
  if set_mem (rng_of r) (sh_ranges s) && in_range a (rng_of r) then Ok (decode (sh_size s) r a) else Err AssertionError.
Proof.
  intros s r a. unfold gen_shadow_decode_address. cbn [rng_of rstart rstop fst snd].
  rewrite tie_shadow_decode. destruct (set_mem _ _); destruct (in_range _ _); reflexivity.
Qed.
Print Assumptions tie_decode_address.

Theorem tie_encode_offset : forall s r o,
  gen_shadow_encode_offset s o (rng_of r) =
  if set_mem (rng_of r) (sh_ranges s) then Ok (encode r o) else Err AssertionError.
Proof.
  intros s r o. unfold gen_shadow_encode_offset. cbn [rng_of rstart rstop fst snd].
  rewrite tie_shadow_encode. destruct (set_mem _ _); reflexivity.
Qed.
Print Assumptions tie_encode_offset.

(* ------------------------------------------------------------------ _Shadow.add *)
(* set.add on the element list *)
Definition elems_add (x : rng) (s : rset) : rset :=
  if set_mem x s then s else mk_rset (rs_elems s ++ [x]) false.

Theorem tie_shadow_add : forall s r,
  gen_shadow_add s (rng_of r) =
  if rs_frozen (sh_ranges s)
  then (if set_mem (rng_of r) (sh_ranges s) then Ok s else Err AssertionError)
  else Ok (mk_shadow (sh_name s) (sh_granularity s) (sh_overlaps s) (elems_add (rng_of r) (sh_ranges s))
                     (Z.max (sh_size s) (reg_size r)) (sh_chunks s)).
Proof.
  intros s r. unfold gen_shadow_add, set_add, elems_add. destruct s as [nm g ov rs sz ch]. cbn.
  destruct (rs_frozen rs); [destruct (set_mem _ _); reflexivity|]. cbn.
  unfold reg_size, reg_len, set_sh_size, set_sh_ranges. cbn [sh_name sh_granularity sh_overlaps sh_ranges sh_size sh_chunks].
  match goal with |- Ok (mk_shadow _ _ _ _ ?x _) = Ok (mk_shadow _ _ _ _ ?y _) => assert (E : x = y) by lia; rewrite ?E end.
  reflexivity.
Qed.
Print Assumptions tie_shadow_add.

(* adding the registers of a list one after the other (what the first loop of elaborate() does to one shadow) *)
Fixpoint add_all (s : shadow) (regs : list reg) : res shadow :=
  match regs with
  | [] => Ok s
  | r :: regs' => match gen_shadow_add s (rng_of r) with Ok s' => add_all s' regs' | Err e => Err e end
  end.

Lemma init_size_app pre regs : init_size (pre ++ regs) = fold_left (fun s r => Z.max s (reg_size r)) regs (init_size pre).
Proof. unfold init_size. apply fold_left_app. Qed.

Lemma add_all_from nm g ov ch : forall regs pre, NoDup (map rng_of (pre ++ regs)) ->
  add_all (mk_shadow nm g ov (mk_rset (map rng_of pre) false) (init_size pre) ch) regs =
  Ok (mk_shadow nm g ov (mk_rset (map rng_of (pre ++ regs)) false) (init_size (pre ++ regs)) ch).
Proof.
  induction regs as [|r regs IH]; intros pre Hnd; [rewrite app_nil_r; reflexivity|].
  cbn [add_all]. rewrite tie_shadow_add. cbn [sh_ranges rs_frozen sh_name sh_granularity sh_overlaps sh_size sh_chunks].
  unfold elems_add. rewrite set_mem_false.
  - cbn [rs_elems]. replace (pre ++ r :: regs) with ((pre ++ [r]) ++ regs) in * by (rewrite <- app_assoc; reflexivity).
    rewrite <- IH by exact Hnd. f_equal. f_equal.
    + rewrite map_app. reflexivity.
    + rewrite init_size_app. reflexivity.
  - cbn [rs_elems]. rewrite map_app in Hnd. cbn in Hnd. apply NoDup_remove_2 in Hnd.
    intros H. apply Hnd. apply in_or_app. left; exact H.
Qed.

(* from the empty shadow: the size is the model's init_size, the set holds every range once *)
Theorem tie_shadow_add_all : forall regs nm g ov ch, NoDup (map rng_of regs) ->
  add_all (mk_shadow nm g ov set_new (init_size []) ch) regs =
  Ok (mk_shadow nm g ov (mk_rset (map rng_of regs) false) (init_size regs) ch).
Proof. intros. apply (add_all_from nm g ov ch regs []). exact H. Qed.
Print Assumptions tie_shadow_add_all.

(* ------------------------------------------------------------------ Chunk *)
Definition chunk_of (s : shadow) (o : Z) (rs : list rng) : chunk :=
  match gen_chunk_init s o rs with Ok c => c | Err _ => mk_chunk [] (AConst 0) (AConst 0) (AConst 0) [] end.

(* Chunk(...) never fails and registers() yields exactly the ranges it was given, in that order *)
Theorem tie_chunk : forall s o rs,
  gen_chunk_init s o rs = Ok (chunk_of s o rs) /\ gen_chunk_registers (chunk_of s o rs) = Ok rs.
Proof. intros s o rs. unfold chunk_of, gen_chunk_init, gen_chunk_registers. cbn. split; reflexivity. Qed.
Print Assumptions tie_chunk.

(* a chunk only depends on the name and the granularity of its shadow *)
Lemma chunk_of_indep s s' o rs : sh_name s = sh_name s' -> sh_granularity s = sh_granularity s' ->
  chunk_of s o rs = chunk_of s' o rs.
Proof. intros H1 H2. unfold chunk_of, gen_chunk_init. rewrite H1, H2. reflexivity. Qed.

(* ------------------------------------------------------------------ _Shadow.chunks *)
Theorem tie_shadow_chunks : forall s,
  gen_shadow_chunks s = match sh_chunks s with Some d => Ok d | None => Err OtherError end.
Proof.
  intros s. unfold gen_shadow_chunks. destruct (sh_chunks s) as [d|]; [|reflexivity]. cbn [bind].
  rewrite (py_for_fold d _ (fun st x => st ++ [x])).
  - rewrite (fold_left_snoc_map (fun x => x)). rewrite map_id. reflexivity.
  - intros [o c] st _. reflexivity.
Qed.
Print Assumptions tie_shadow_chunks.

(* ------------------------------------------------------------------ _Shadow.prepare *)
Definition chunk_of0 (nm : pystr) (g : pyint) := chunk_of (mk_shadow nm g VNone set_new 1 None).

(* the loop that fills self._chunks, for any body that constructs the chunk and stores it under its offset *)
Lemma chunks_loop nm g ov rs sz (body : Z * list rng -> shadow -> res (shadow * bool)) :
  (forall o l s d, sh_chunks s = Some d ->
     body (o, l) s = Ok (set_sh_chunks s (Some (dict_set d o (chunk_of s o l))), false)) ->
  forall l acc, NoDup (keys acc ++ keys l) ->
  py_for l body (mk_shadow nm g ov rs sz (Some acc)) =
  Ok (mk_shadow nm g ov rs sz (Some (acc ++ map (fun p => (fst p, chunk_of0 nm g (fst p) (snd p))) l))).
Proof.
  intros Hb. induction l as [|[o rl] l IH]; intros acc Hnd; [cbn; rewrite app_nil_r; reflexivity|].
  cbn [py_for]. rewrite (Hb o rl _ acc) by reflexivity.
  assert (Hset : dict_set acc o (chunk_of (mk_shadow nm g ov rs sz (Some acc)) o rl) = acc ++ [(o, chunk_of0 nm g o rl)]).
  { unfold chunk_of0. rewrite (chunk_of_indep _ (mk_shadow nm g VNone set_new 1 None)) by reflexivity.
    apply dict_set_new. cbn in Hnd. apply NoDup_remove_2 in Hnd. intros H. apply Hnd. apply in_or_app. left; exact H. }
  rewrite Hset. unfold set_sh_chunks. cbn [sh_name sh_granularity sh_overlaps sh_ranges sh_size]. rewrite IH.
  - rewrite <- app_assoc. reflexivity.
  - unfold keys in *. rewrite map_app, <- app_assoc. exact Hnd.
Qed.

Definition chunks_of (nm : pystr) (g : pyint) (S : Z) (regs : list reg) : list (Z * chunk) :=
  map (fun p => (fst p, chunk_of0 nm g (fst p) (snd p))) (chunk_dict S regs).

Lemma step_int : forall fuel rec regs nm g v elems Sz ch,
  ascending regs -> Permutation elems (map rng_of regs) ->
  gen_shadow_prepare_body fuel rec (mk_shadow nm g (VInt v) (mk_rset elems false) Sz ch) =
  if can_grow Sz regs && unbalanced Sz v regs
  then rec (mk_shadow nm g (VInt v) (mk_rset elems false) (2 * Sz) ch)
  else Ok (mk_shadow nm g (VInt v) (mk_rset elems true) Sz (Some (chunks_of nm g Sz regs))).
Proof.
  intros fuel rec regs nm g v elems Sz ch Hasc Hperm.
  remember (mk_shadow nm g (VInt v) (mk_rset elems false) Sz ch) as self eqn:Hself.
  assert (Hrs : sh_ranges self = mk_rset elems false) by (subst; reflexivity).
  assert (Hsz : sh_size self = Sz) by (subst; reflexivity).
  assert (Hov : sh_overlaps self = VInt v) by (subst; reflexivity).
  unfold gen_shadow_prepare_body. rewrite ?Hrs, ?Hov. cbn [rs_frozen is_none bind]. rewrite ?Hrs, ?Hov, ?Hsz. cbn [rs_elems zof].
  assert (Hsorted : forall key : rng -> list Z, (forall x, exists t, key x = rstart x :: t) ->
                    py_sorted key elems = map rng_of regs).
  { intros key Hk. apply (py_sorted_perm rng_eq_dec); [apply ascending_klt; assumption|exact Hperm]. }
  rewrite Hsorted by (intros x; eexists; reflexivity).
  match goal with |- context [existsb ?f (map rng_of regs)] => set (cg := existsb f (map rng_of regs)) end.
  assert (Hcg : cg = can_grow Sz regs).
  { unfold cg, can_grow. rewrite existsb_rng_of. apply existsb_ext'. intros r. cbn [rng_of rstart fst]. lia. }
  assert (Hmem : forall r, In r regs -> set_mem (rng_of r) (sh_ranges self) = true).
  { intros r Hr. rewrite Hrs. apply set_mem_In. cbn [rs_elems]. apply Permutation_in with (map rng_of regs);
      [symmetry; exact Hperm|apply in_map; exact Hr]. }
  match goal with |- context [py_for (map rng_of regs) ?b (true, [])] =>
    destruct (prepare_loops Sz v cg regs b) as (d' & E & G) end.
  { intros r [bal d] Hr. eexists. split; cycle 1.
    - cbn [rng_of rstart rstop fst snd]. reflexivity.
    - intros a bal0 d0 Ha. cbn beta iota. rewrite tie_decode_address, (Hmem r Hr), (in_range_addrs r a Ha).
      cbn [andb bind]. rewrite Hsz. unfold cnt_of.
      destruct (cg && (Z.of_nat (List.length (dd_get d0 (decode Sz r a))) >? v)) eqn:Ec; settle_ifs;
        [eexists; reflexivity|].
      destruct cg; [rewrite dd_append_touch|]; reflexivity. }
  unfold dstate, ddict in *. rewrite E. cbn [bind]. rewrite Hcg in *.
  destruct (can_grow Sz regs && unbalanced Sz v regs) eqn:Eb; cbn [negb].
  - subst self. unfold set_sh_size. cbn [sh_name sh_granularity sh_overlaps sh_ranges sh_chunks].
    match goal with |- context [rec (mk_shadow _ _ _ _ ?e _)] => assert (E2 : e = 2 * Sz) by lia; rewrite ?E2 end.
    destruct (rec _); reflexivity.
  - rewrite (G eq_refl). subst self. unfold set_sh_ranges, set_sh_chunks, set_freeze.
    cbn [sh_name sh_granularity sh_overlaps sh_ranges sh_size sh_chunks rs_elems].
    match goal with |- context [py_for (chunk_dict Sz regs) ?b _] =>
      rewrite (chunks_loop nm g (VInt v) (mk_rset elems true) Sz b) end.
    + reflexivity.
    + intros o l s d Hd. cbn beta iota. rewrite (proj1 (tie_chunk s o l)). cbn [bind]. rewrite Hd. reflexivity.
    + cbn [keys map app]. rewrite chunk_dict_keys. apply table_NoDup.
Qed.


Lemma step_none fuel rec nm g elems Sz ch :
  gen_shadow_prepare_body fuel rec (mk_shadow nm g VNone (mk_rset elems false) Sz ch) =
  gen_shadow_prepare_body fuel rec (mk_shadow nm g (VInt (set_len (mk_rset elems false))) (mk_rset elems false) Sz ch).
Proof.
  unfold gen_shadow_prepare_body. cbn [sh_ranges rs_frozen sh_overlaps is_none bind].
  unfold set_sh_overlaps. cbn [sh_name sh_granularity sh_ranges sh_size sh_chunks]. reflexivity.
Qed.

(* the sharing limit in force: the given one, or the number of registers *)
Definition eff_ov (ovv : pyint) (regs : list reg) : Z := match ovv with VInt v => v | _ => Z.of_nat (List.length regs) end.

Lemma prepare_int : forall fuel regs nm g v elems Sz ch S',
  ascending regs -> Permutation elems (map rng_of regs) ->
  prepare fuel Sz v regs = Some S' ->
  gen_shadow_prepare fuel (mk_shadow nm g (VInt v) (mk_rset elems false) Sz ch) =
  Ok (mk_shadow nm g (VInt v) (mk_rset elems true) S' (Some (chunks_of nm g S' regs))).
Proof.
  induction fuel as [|f IH]; intros regs nm g v elems Sz ch S' Hasc Hperm Hp; [discriminate|].
  cbn [gen_shadow_prepare prepare] in *. rewrite (step_int f _ regs) by assumption.
  destruct (can_grow Sz regs && unbalanced Sz v regs).
  - apply IH; assumption.
  - injection Hp as <-. reflexivity.
Qed.

(* MAIN: the recursion of prepare(), with the model's fuel, ends in the state the model predicts: the size is the one
   Mux.prepare returns, the set is frozen, overlaps is defaulted, and _chunks is the chunk table in first-touch order.
   `elems` is ANY enumeration of the set (sorted() makes the loop independent of it). *)
Theorem tie_prepare : forall fuel regs nm g ovv elems Sz ch S',
  ascending regs -> Permutation elems (map rng_of regs) -> (ovv = VNone \/ exists v, ovv = VInt v) ->
  prepare fuel Sz (eff_ov ovv regs) regs = Some S' ->
  gen_shadow_prepare fuel (mk_shadow nm g ovv (mk_rset elems false) Sz ch) =
  Ok (mk_shadow nm g (VInt (eff_ov ovv regs)) (mk_rset elems true) S' (Some (chunks_of nm g S' regs))).
Proof.
  intros fuel regs nm g ovv elems Sz ch S' Hasc Hperm [->|[v ->]] Hp; [|apply prepare_int; assumption].
  destruct fuel as [|f]; [discriminate|].
  cbn [gen_shadow_prepare]. rewrite step_none.
  change (gen_shadow_prepare_body f (gen_shadow_prepare f) ?s) with (gen_shadow_prepare (S f) s).
  assert (El : set_len (mk_rset elems false) = eff_ov VNone regs).
  { unfold set_len, eff_ov. cbn [rs_elems]. rewrite (Permutation_length Hperm), map_length. reflexivity. }
  rewrite El. apply prepare_int; assumption.
Qed.
Print Assumptions tie_prepare.

(* a prepared shadow is left alone *)
Theorem tie_prepare_frozen : forall fuel s, rs_frozen (sh_ranges s) = true -> gen_shadow_prepare (S fuel) s = Ok s.
Proof. intros fuel s H. cbn [gen_shadow_prepare]. unfold gen_shadow_prepare_body. rewrite H. reflexivity. Qed.
Print Assumptions tie_prepare_frozen.

(* the registers of the chunks are those the model's chunk table lists: the ones touching the chunk, in order *)
Theorem tie_chunk_table : forall nm g S regs,
  map (fun p => (fst p, gen_chunk_registers (snd p))) (chunks_of nm g S regs) =
  map (fun o => (o, Ok (map rng_of (filter (fun r => touches S r o) regs)))) (table S regs).
Proof.
  intros nm g S regs. unfold chunks_of, chunk_dict. rewrite !map_map. apply map_ext. intros o. cbn [fst snd].
  unfold chunk_of0. rewrite (proj2 (tie_chunk _ _ _)), chunk_regs_filter. reflexivity.
Qed.
Print Assumptions tie_chunk_table.

(* ------------------------------------------------------------------ _check_memory_map / Multiplexer.__init__ *)
Definition res_ok (x : resource) : bool := rs_has_element x && rs_flow_out x && rs_is_sig x && rs_sig_elem x.

Theorem tie_check_memory_map : forall mm,
  gen_mux_check_memory_map mm =
  match Elab.mux_check (mm_is_map mm) (negb (is_nil (mm_windows mm))) (existsb (fun x => negb (res_ok x)) (mm_resources mm)) with
  | 0 => Ok tt | 1 => Err ValueError | 2 => Err TypeError | _ => Err OtherError
  end.
Proof.
  intros mm. unfold gen_mux_check_memory_map, Elab.mux_check.
  destruct (mm_is_map mm); cbn [negb]; [|reflexivity].
  destruct (is_nil (mm_windows mm)); cbn [negb]; [|reflexivity].
  rewrite (py_for_check (fun x => negb (res_ok x)) OtherError).
  - destruct (existsb _ _); reflexivity.
  - intros x []. unfold res_ok. destruct (negb _); reflexivity.
Qed.
Print Assumptions tie_check_memory_map.

Theorem tie_mux_init : forall mm ov,
  gen_mux_init mm ov =
  match gen_mux_check_memory_map mm with
  | Err e => Err e
  | Ok _ =>
      if valid_shadow_args (VInt (mm_data_width mm)) ov (VStr [SLit "r_shadow"])
      then Ok (mk_mux (mk_shadow (VStr [SLit "r_shadow"]) (VInt (mm_data_width mm)) ov set_new (init_size []) None)
                      (mk_shadow (VStr [SLit "w_shadow"]) (VInt (mm_data_width mm)) ov set_new (init_size []) None)
                      (mm_addr_width mm) (mm_data_width mm) mm)
      else Err AssertionError
  end.
Proof.
  intros mm ov. unfold gen_mux_init. destruct (gen_mux_check_memory_map mm) as [[]|e]; [|reflexivity].
  cbn [bind]. rewrite !tie_shadow_init.
  unfold valid_shadow_args. cbn [is_str]. destruct (_ && _ && _); reflexivity.
Qed.
Print Assumptions tie_mux_init.

(* ------------------------------------------------------------------ Multiplexer.elaborate *)
Definition res_of (r : reg) : resource := mk_resource (r_start r) (r_stop r) (r_rd r) (r_wr r) true true true true.

Theorem tie_chunk_registers : forall c, gen_chunk_registers c = Ok (ch_registers c).
Proof. intros c. unfold gen_chunk_registers. reflexivity. Qed.
Print Assumptions tie_chunk_registers.

Lemma encode_offset_rng s o (x : rng) :
  gen_shadow_encode_offset s o x = if set_mem x (sh_ranges s) then Ok (encode (mkreg x) o) else Err AssertionError.
Proof. rewrite <- (rng_of_mkreg x) at 1 2. apply tie_encode_offset. Qed.

(* the skeleton, written by hand in the order of the code: what one register adds to the Switch of a read chunk,
   what one read chunk adds to the module, the same for write chunks *)
Definition r_reg_step (dw : Z) (c : chunk) (o : Z) (st : list astmt * list aval * list aval) (x : rng) :=
  let '(m, wf, df) := st in
  let ca := encode (mkreg x) o in
  (m ++ [SCase ca ((if ca =? rstart x then [SAdd "comb" (AEq (AElem (rstart x) "r_stb") (APort "bus.r_stb"))] else [])
                   ++ [SAdd "sync" (AEq (ch_r_en c) (APort "bus.r_stb"))])],
   wf ++ [AElem (rstart x) "r_stb"],
   df ++ [AMux (AElem (rstart x) "r_stb") (AWordSel (AElem (rstart x) "r_data") (ca - rstart x) dw) (AConst 0)]).

Definition r_chunk_step (dw : Z) (st : list astmt * list aval) (oc : Z * chunk) :=
  let '(m, rf) := st in
  let '(o, c) := oc in
  let '(mi, wf, df) := fold_left (r_reg_step dw c o) (ch_registers c) ([], [], []) in
  (m ++ [SAdd "sync" (AEq (ch_r_en c) (AConst 0));
         SSwitch (APort "bus.addr") mi;
         SAdd "comb" (AEq (ch_w_en c) (AOrReduce wf));
         SIf (ch_w_en c) [SAdd "sync" (AEq (ch_data c) (AOrReduce df))]],
   rf ++ [AMux (ch_r_en c) (ch_data c) (AConst 0)]).

Definition w_reg_step (dw : Z) (c : chunk) (o : Z) (m : list astmt) (x : rng) :=
  let ca := encode (mkreg x) o in
  m ++ (if ca =? rstop x - 1 then [SAdd "sync" (AEq (AElem (rstart x) "w_stb") (AConst 0))] else [])
    ++ [SCase ca ((if ca =? rstop x - 1 then [SAdd "sync" (AEq (AElem (rstart x) "w_stb") (APort "bus.w_stb"))] else [])
                  ++ [SAdd "comb" (AEq (ch_w_en c) (APort "bus.w_stb"))]);
        SAdd "comb" (AEq (AWordSel (AElem (rstart x) "w_data") (ca - rstart x) dw) (ch_data c))].

Definition w_chunk_step (dw : Z) (m : list astmt) (oc : Z * chunk) :=
  let '(o, c) := oc in
  m ++ [SSwitch (APort "bus.addr") (fold_left (w_reg_step dw c o) (ch_registers c) []);
        SIf (ch_w_en c) [SAdd "sync" (AEq (ch_data c) (APort "bus.w_data"))]].

Definition skeleton (dw : Z) (rchunks wchunks : list (Z * chunk)) : list astmt :=
  let '(m1, rf) := fold_left (r_chunk_step dw) rchunks ([], []) in
  fold_left (w_chunk_step dw) wchunks (m1 ++ [SAdd "comb" (AEq (APort "bus.r_data") (AOrReduce rf))]).

(* the first loop of elaborate(): every register goes to the shadows its access mode names *)
Lemma elab_adds aw dw mm body :
  (forall r mx, body (res_of r) mx =
     (let! mx1 := (if r_rd r then (let! s := gen_shadow_add (mx_r_shadow mx) (rng_of r) in Ok (set_mx_r_shadow mx s)) else Ok mx) in
      let! mx2 := (if r_wr r then (let! s := gen_shadow_add (mx_w_shadow mx1) (rng_of r) in Ok (set_mx_w_shadow mx1 s)) else Ok mx1) in
      Ok (mx2, false))) ->
  forall regs rs ws rs' ws',
  add_all rs (filter r_rd regs) = Ok rs' -> add_all ws (filter r_wr regs) = Ok ws' ->
  py_for (map res_of regs) body (mk_mux rs ws aw dw mm) = Ok (mk_mux rs' ws' aw dw mm).
Proof.
  intros Hb. induction regs as [|r regs IH]; intros rs ws rs' ws' Hr Hw.
  - cbn in *. congruence.
  - cbn [map py_for filter] in *. rewrite Hb. cbn [mx_r_shadow mx_w_shadow].
    destruct (r_rd r); destruct (r_wr r); cbn [add_all] in Hr, Hw; cbn [bind];
      repeat match goal with
             | H : match gen_shadow_add ?s ?x with Ok _ => _ | Err _ => _ end = Ok _ |- _ =>
                 destruct (gen_shadow_add s x) eqn:?; [|discriminate]
             end; cbn [bind set_mx_r_shadow set_mx_w_shadow mx_r_shadow mx_w_shadow mx_bus_addr_width mx_bus_data_width mx_bus_memory_map];
      repeat match goal with H : gen_shadow_add _ _ = Ok _ |- _ => rewrite H; clear H end;
      cbn [bind set_mx_r_shadow set_mx_w_shadow mx_r_shadow mx_w_shadow mx_bus_addr_width mx_bus_data_width mx_bus_memory_map];
      apply IH; assumption.
Qed.

Definition prepared (nm : pystr) (g ovv : pyint) (elems : list rng) (S : Z) (regs : list reg) : shadow :=
  mk_shadow nm g ovv (mk_rset elems true) S (Some (chunks_of nm g S regs)).

Lemma chunk_of_registers s o l : ch_registers (chunk_of s o l) = l.
Proof.
  pose proof (proj2 (tie_chunk s o l)) as H. rewrite tie_chunk_registers in H. congruence.
Qed.

Lemma chunks_of_registers nm g S regs o c : In (o, c) (chunks_of nm g S regs) ->
  forall x, In x (ch_registers c) -> In x (map rng_of regs).
Proof.
  unfold chunks_of, chunk_dict. rewrite map_map. intros H x Hx. apply in_map_iff in H. destruct H as (o' & E & Hin).
  cbn [fst snd] in E. inversion E; subst o' c. clear E.
  unfold chunk_of0 in Hx. rewrite chunk_of_registers in Hx.
  apply in_map_iff in Hx. destruct Hx as (r & <- & Hr). apply in_map.
  rewrite chunk_regs_filter in Hr. apply filter_In in Hr. tauto.
Qed.

Lemma elab_core : forall fuel regs aw dw mm rs ws ra wa nmr gr ovr er Sr nmw gw ovw ew Sw,
  mm_resources mm = map res_of regs ->
  add_all rs (filter r_rd regs) = Ok ra -> add_all ws (filter r_wr regs) = Ok wa ->
  gen_shadow_prepare fuel ra = Ok (prepared nmr gr ovr er Sr (filter r_rd regs)) ->
  gen_shadow_prepare fuel wa = Ok (prepared nmw gw ovw ew Sw (filter r_wr regs)) ->
  Permutation er (map rng_of (filter r_rd regs)) -> Permutation ew (map rng_of (filter r_wr regs)) ->
  gen_mux_elaborate fuel (mk_mux rs ws aw dw mm) =
  Ok (mk_mux (prepared nmr gr ovr er Sr (filter r_rd regs)) (prepared nmw gw ovw ew Sw (filter r_wr regs)) aw dw mm,
      skeleton dw (chunks_of nmr gr Sr (filter r_rd regs)) (chunks_of nmw gw Sw (filter r_wr regs))).
Proof.
  intros fuel regs aw dw mm rs ws ra wa nmr gr ovr er Sr nmw gw ovw ew Sw Hres Hra Hwa Hpr Hpw Hper Hpew.
  remember (prepared nmr gr ovr er Sr (filter r_rd regs)) as Pr eqn:HPr.
  remember (prepared nmw gw ovw ew Sw (filter r_wr regs)) as Pw eqn:HPw.
  assert (HcR : sh_chunks Pr = Some (chunks_of nmr gr Sr (filter r_rd regs))) by (subst; reflexivity).
  assert (HcW : sh_chunks Pw = Some (chunks_of nmw gw Sw (filter r_wr regs))) by (subst; reflexivity).
  assert (HmR : forall x, In x (map rng_of (filter r_rd regs)) -> set_mem x (sh_ranges Pr) = true).
  { intros x Hx. subst Pr. apply set_mem_In. cbn. apply Permutation_in with (map rng_of (filter r_rd regs)); [symmetry|]; assumption. }
  assert (HmW : forall x, In x (map rng_of (filter r_wr regs)) -> set_mem x (sh_ranges Pw) = true).
  { intros x Hx. subst Pw. apply set_mem_In. cbn. apply Permutation_in with (map rng_of (filter r_wr regs)); [symmetry|]; assumption. }
  clear HPr HPw.
  unfold gen_mux_elaborate. cbn [mx_bus_memory_map]. rewrite Hres.
  match goal with |- context [py_for (map res_of regs) ?b _] => rewrite (elab_adds aw dw mm b) with (rs' := ra) (ws' := wa) end;
    [|intros r mx; cbn [res_of rs_readable rs_writable rs_start rs_stop]; reflexivity|exact Hra|exact Hwa].
  cbn [bind mx_r_shadow]. rewrite Hpr. cbn [bind]. unfold set_mx_r_shadow.
  cbn [mx_r_shadow mx_w_shadow mx_bus_addr_width mx_bus_data_width mx_bus_memory_map].
  rewrite Hpw. cbn [bind]. unfold set_mx_w_shadow.
  cbn [mx_r_shadow mx_w_shadow mx_bus_addr_width mx_bus_data_width mx_bus_memory_map].
  rewrite !tie_shadow_chunks, HcR, HcW. cbn [bind].
  match goal with |- context [py_for (chunks_of nmr gr Sr ?R) ?b ?i] =>
    rewrite (py_for_fold (chunks_of nmr gr Sr R) b (r_chunk_step dw)) end.
  2:{ intros [o c] [m rf] Hin. cbn beta iota. rewrite tie_chunk_registers. cbn [bind].
      match goal with |- context [py_for (ch_registers c) ?b ?i] =>
        rewrite (py_for_fold (ch_registers c) b (r_reg_step dw c o)) end.
      - unfold r_chunk_step. cbn [bind]. destruct (fold_left _ _ _) as [[mi wf] df].
        cbn [app]. repeat rewrite <- app_assoc. reflexivity.
      - intros x [[m' wf] df] Hx. cbn beta iota. rewrite encode_offset_rng.
        rewrite (HmR x (chunks_of_registers _ _ _ _ _ _ Hin x Hx)). cbn [bind]. unfold r_reg_step.
        destruct (encode (mkreg x) o =? rstart x) eqn:Ec; settle_ifs; cbn [bind app]; reflexivity. }
  cbn [bind]. unfold skeleton. destruct (fold_left (r_chunk_step dw) _ _) as [m1 rf]. cbn [bind].
  match goal with |- context [py_for (chunks_of nmw gw Sw ?R) ?b ?i] =>
    rewrite (py_for_fold (chunks_of nmw gw Sw R) b (w_chunk_step dw)) end.
  2:{ intros [o c] m Hin. cbn beta iota. rewrite tie_chunk_registers. cbn [bind].
      match goal with |- context [py_for (ch_registers c) ?b ?i] =>
        rewrite (py_for_fold (ch_registers c) b (w_reg_step dw c o)) end.
      - unfold w_chunk_step. cbn [bind app]. repeat rewrite <- app_assoc. reflexivity.
      - intros x m' Hx. cbn beta iota. rewrite encode_offset_rng.
        rewrite (HmW x (chunks_of_registers _ _ _ _ _ _ Hin x Hx)). cbn [bind]. unfold w_reg_step.
        destruct (encode (mkreg x) o =? rstop x - 1) eqn:Ec; settle_ifs; cbn [bind app]; repeat rewrite <- app_assoc;
          reflexivity. }
  cbn [bind]. reflexivity.
Qed.

Definition ov_of (o : option Z) : pyint := match o with Some v => VInt v | None => VNone end.
Definition fresh (nm : pystr) (g ovv : pyint) : shadow := mk_shadow nm g ovv set_new (init_size []) None.
Definition ov_eff (o : option Z) (regs : list reg) : Z := match o with Some v => v | None => Z.of_nat (List.length regs) end.

Lemma prepare_fresh fuel nm g ov regs S :
  ascending regs -> shadow_size ov regs = Some S -> (prepare_fuel regs <= fuel)%nat ->
  exists ra, add_all (fresh nm g (ov_of ov)) regs = Ok ra /\
             gen_shadow_prepare fuel ra = Ok (prepared nm g (VInt (ov_eff ov regs)) (map rng_of regs) S regs).
Proof.
  intros Hasc Hs Hf. eexists. split; [apply tie_shadow_add_all; apply ascending_NoDup_rng; exact Hasc|].
  assert (E : eff_ov (ov_of ov) regs = ov_eff ov regs) by (destruct ov; reflexivity).
  unfold prepared. rewrite <- E. apply tie_prepare; [exact Hasc|apply Permutation_refl|destruct ov; cbn; eauto|].
  rewrite E. unfold shadow_size in Hs. apply (prepare_more_fuel _ _ _ _ _ _ Hs Hf).
Qed.

(* MAIN (first elaboration): from the object Multiplexer.__init__ builds, elaborate() leaves both shadows prepared with
   the sizes of Mux.mk_cfg and returns the skeleton over the model's chunk tables *)
Theorem tie_elaborate : forall fuel regs dw aw ov mm c nmr nmw g,
  wf_layout regs -> mm_resources mm = map res_of regs -> mk_cfg dw regs ov = Some c ->
  (prepare_fuel (filter r_rd regs) <= fuel)%nat -> (prepare_fuel (filter r_wr regs) <= fuel)%nat ->
  gen_mux_elaborate fuel (mk_mux (fresh nmr g (ov_of ov)) (fresh nmw g (ov_of ov)) aw dw mm) =
  Ok (mk_mux (prepared nmr g (VInt (ov_eff ov (rregs c))) (map rng_of (rregs c)) (c_Sr c) (rregs c))
             (prepared nmw g (VInt (ov_eff ov (wregs c))) (map rng_of (wregs c)) (c_Sw c) (wregs c)) aw dw mm,
      skeleton dw (chunks_of nmr g (c_Sr c) (rregs c)) (chunks_of nmw g (c_Sw c) (wregs c))).
Proof.
  intros fuel regs dw aw ov mm c nmr nmw g Hwf Hres Hc Hfr Hfw.
  destruct (mk_cfg_sizes _ _ _ _ Hc) as [Hsr Hsw].
  assert (Hregs : c_regs c = regs).
  { unfold mk_cfg in Hc. destruct (shadow_size ov (filter r_rd regs)); [|discriminate].
    destruct (shadow_size ov (filter r_wr regs)); [|discriminate]. inversion Hc. reflexivity. }
  unfold rregs, wregs. rewrite Hregs.
  pose proof (layout_ascending _ Hwf) as Hasc.
  destruct (prepare_fresh fuel nmr g ov _ _ (ascending_filter r_rd _ Hasc) Hsr Hfr) as (ra & Hra & Hpr).
  destruct (prepare_fresh fuel nmw g ov _ _ (ascending_filter r_wr _ Hasc) Hsw Hfw) as (wa & Hwa & Hpw).
  apply (elab_core fuel regs aw dw mm _ _ ra wa); try assumption; apply Permutation_refl.
Qed.
Print Assumptions tie_elaborate.

Lemma add_all_frozen s : rs_frozen (sh_ranges s) = true -> forall l,
  (forall r, In r l -> set_mem (rng_of r) (sh_ranges s) = true) -> add_all s l = Ok s.
Proof.
  intros Hf. induction l as [|r l IH]; intros H; [reflexivity|]. cbn [add_all].
  rewrite tie_shadow_add, Hf, (H r (or_introl eq_refl)). apply IH. intros r' Hr'. apply H. right; exact Hr'.
Qed.

(* MAIN (every later elaboration): on the prepared object add() only checks membership, prepare() returns at once, and
   the same skeleton is produced again; `er` / `ew` are ANY enumerations of the two frozen sets *)
Theorem tie_elaborate_again : forall fuel regs dw aw mm nmr gr ovr er Sr nmw gw ovw ew Sw,
  mm_resources mm = map res_of regs ->
  Permutation er (map rng_of (filter r_rd regs)) -> Permutation ew (map rng_of (filter r_wr regs)) ->
  let mx := mk_mux (prepared nmr gr ovr er Sr (filter r_rd regs)) (prepared nmw gw ovw ew Sw (filter r_wr regs)) aw dw mm in
  gen_mux_elaborate (S fuel) mx =
  Ok (mx, skeleton dw (chunks_of nmr gr Sr (filter r_rd regs)) (chunks_of nmw gw Sw (filter r_wr regs))).
Proof.
  intros fuel regs dw aw mm nmr gr ovr er Sr nmw gw ovw ew Sw Hres Hper Hpew mx. unfold mx.
  apply (elab_core (S fuel) regs aw dw mm _ _ (prepared nmr gr ovr er Sr (filter r_rd regs))
                   (prepared nmw gw ovw ew Sw (filter r_wr regs))); try assumption.
  - apply add_all_frozen; [reflexivity|]. intros r Hr. apply set_mem_In. cbn.
    apply Permutation_in with (map rng_of (filter r_rd regs)); [symmetry; exact Hper|apply in_map; exact Hr].
  - apply add_all_frozen; [reflexivity|]. intros r Hr. apply set_mem_In. cbn.
    apply Permutation_in with (map rng_of (filter r_wr regs)); [symmetry; exact Hpew|apply in_map; exact Hr].
  - apply tie_prepare_frozen. reflexivity.
  - apply tie_prepare_frozen. reflexivity.
Qed.
Print Assumptions tie_elaborate_again.

(* ------------------------------------------------------------------ the skeleton is the image of the sites *)
Definition site_rcase (c : chunk) (s : site) : astmt :=
  SCase (st_addr s) ((if st_strobe s then [SAdd "comb" (AEq (AElem (st_reg s) "r_stb") (APort "bus.r_stb"))] else [])
                     ++ [SAdd "sync" (AEq (ch_r_en c) (APort "bus.r_stb"))]).
Definition site_rfan (s : site) : aval := AElem (st_reg s) "r_stb".
Definition site_rword (dw : Z) (s : site) : aval :=
  AMux (AElem (st_reg s) "r_stb") (AWordSel (AElem (st_reg s) "r_data") (st_word s) dw) (AConst 0).
Definition site_wstmts (dw : Z) (c : chunk) (s : site) : list astmt :=
  (if st_strobe s then [SAdd "sync" (AEq (AElem (st_reg s) "w_stb") (AConst 0))] else [])
  ++ [SCase (st_addr s) ((if st_strobe s then [SAdd "sync" (AEq (AElem (st_reg s) "w_stb") (APort "bus.w_stb"))] else [])
                         ++ [SAdd "comb" (AEq (ch_w_en c) (APort "bus.w_stb"))]);
      SAdd "comb" (AEq (AWordSel (AElem (st_reg s) "w_data") (st_word s) dw) (ch_data c))].

Lemma r_regs_sites dw c o : forall rs m wf df,
  fold_left (r_reg_step dw c o) rs (m, wf, df) =
  let ss := sites_of rstart [(o, rs)] in
  (m ++ map (site_rcase c) ss, wf ++ map site_rfan ss, df ++ map (site_rword dw) ss).
Proof.
  unfold sites_of. cbn [flat_map fst snd]. intros rs. rewrite app_nil_r.
  induction rs as [|x rs IH]; intros m wf df; cbn [fold_left map]; [rewrite !app_nil_r; reflexivity|].
  unfold r_reg_step at 2. rewrite IH. cbn zeta. rewrite <- !app_assoc. reflexivity.
Qed.

Lemma w_regs_sites dw c o : forall rs m,
  fold_left (w_reg_step dw c o) rs m = m ++ flat_map (site_wstmts dw c) (sites_of (fun x => rstop x - 1) [(o, rs)]).
Proof.
  unfold sites_of. cbn [flat_map fst snd]. intros rs. rewrite app_nil_r.
  induction rs as [|x rs IH]; intros m; cbn [fold_left map flat_map]; [rewrite app_nil_r; reflexivity|].
  rewrite IH. unfold w_reg_step, site_wstmts. cbn [st_strobe st_reg st_addr st_word]. rewrite <- !app_assoc. reflexivity.
Qed.

(* the sites of all chunks of a prepared shadow are the model-side lists rsites / wsites *)
Lemma chunks_of_dict nm g S regs :
  map (fun p => (fst p, ch_registers (snd p))) (chunks_of nm g S regs) = chunk_dict S regs.
Proof.
  unfold chunks_of. rewrite map_map. cbn [fst snd]. unfold chunk_of0.
  rewrite <- (map_id (chunk_dict S regs)) at 2. apply map_ext. intros [o l]. cbn [fst snd].
  rewrite chunk_of_registers. reflexivity.
Qed.

Lemma sites_of_concat {A} f (h : A -> Z * list rng) (l : list A) :
  flat_map (fun p => sites_of f [h p]) l = sites_of f (map h l).
Proof.
  unfold sites_of. induction l as [|p l IH]; [reflexivity|]. cbn [flat_map map app] in *. rewrite IH, app_nil_r. reflexivity.
Qed.

Theorem tie_sites : forall f nm g S regs,
  flat_map (fun p => sites_of f [(fst p, ch_registers (snd p))]) (chunks_of nm g S regs) = sites_of f (chunk_dict S regs).
Proof. intros f nm g S regs. rewrite sites_of_concat, chunks_of_dict. reflexivity. Qed.
Print Assumptions tie_sites.

(* per chunk: what the skeleton contains is a function of the chunk's signals and of its sites *)
Theorem skeleton_read_chunk : forall dw st o c,
  r_chunk_step dw st (o, c) =
  let ss := sites_of rstart [(o, ch_registers c)] in
  (fst st ++ [SAdd "sync" (AEq (ch_r_en c) (AConst 0));
              SSwitch (APort "bus.addr") (map (site_rcase c) ss);
              SAdd "comb" (AEq (ch_w_en c) (AOrReduce (map site_rfan ss)));
              SIf (ch_w_en c) [SAdd "sync" (AEq (ch_data c) (AOrReduce (map (site_rword dw) ss)))]],
   snd st ++ [AMux (ch_r_en c) (ch_data c) (AConst 0)]).
Proof. intros dw [m rf] o c. unfold r_chunk_step. rewrite r_regs_sites. reflexivity. Qed.
Print Assumptions skeleton_read_chunk.

Theorem skeleton_write_chunk : forall dw m o c,
  w_chunk_step dw m (o, c) =
  m ++ [SSwitch (APort "bus.addr") (flat_map (site_wstmts dw c) (sites_of (fun x => rstop x - 1) [(o, ch_registers c)]));
        SIf (ch_w_en c) [SAdd "sync" (AEq (ch_data c) (APort "bus.w_data"))]].
Proof. intros dw m o c. unfold w_chunk_step. rewrite w_regs_sites. reflexivity. Qed.
Print Assumptions skeleton_write_chunk.

(* the model-side facts the statements above lean on (Proofs/ShadowTie.v), re-checked with every run *)
Print Assumptions prepare_loops.
Print Assumptions py_sorted_perm.
Print Assumptions shadow_size_perm.
Print Assumptions chunk_regs_filter.
Print Assumptions wen_sites.
Print Assumptions ren_sites.
Print Assumptions rstb_sites.
Print Assumptions wstb_sites.
