(* placeholder header, see below *)
From Coq Require Import ZArith List Bool Lia ZifyBool Permutation Sorted String.
From Soc Require Import Lib.Bits Lib.Res Lib.PyShadow Model.Mux Model.MuxSpec Proofs.ShadowHash Proofs.MuxTable
  Proofs.MuxPrepare Proofs.ShadowTie.
From Soc Require Model.Elab.
From SocGen Require Import Kernels Tie ShadowGen.
Import ListNotations.
Open Scope Z_scope.

(* ------------------------------------------------------------------ _Shadow.__init__ *)
Definition valid_shadow_args (g ov : pyint) (nm : pystr) : bool :=
  is_str nm && (is_int g && (0 <=? zof g)) && (is_none ov || (is_int ov && (0 <=? zof ov))).

Theorem tie_shadow_init : forall g ov nm,
  gen_shadow_init g ov nm =
  if valid_shadow_args g ov nm then Ok (mk_shadow nm g ov set_new (init_size []) None) else Err AssertionError.
Proof.
  intros g ov nm. unfold gen_shadow_init, valid_shadow_args.
  destruct nm; destruct g; destruct ov; cbn; try reflexivity;
    repeat match goal with |- context [?a >=? ?b] => replace (a >=? b) with (b <=? a) by lia end;
    repeat match goal with |- context [0 <=? ?z] => destruct (0 <=? z) end; reflexivity.
Qed.
Print Assumptions tie_shadow_init.

(* ------------------------------------------------------------------ decode_address / encode_offset: the asserts *)
Theorem tie_decode_address : forall s r a,
  gen_shadow_decode_address s a (rng_of r) =
  if set_mem (rng_of r) (sh_ranges s) && in_range a (rng_of r) then Ok (decode (sh_size s) r a) else Err AssertionError.
Proof.
  intros s r a. unfold gen_shadow_decode_address. cbn [rng_of rstart rstop fst snd].
  rewrite tie_shadow_decode. destruct (set_mem _ _); destruct (in_range _ _); reflexivity.
Qed.
Print Assumptions tie_decode_address.

Theorem tie_encode_offset : forall s r o,
  gen_shadow_encode_offset s o (rng_of r) =
  if set_mem (rng_of r) (sh_ranges s) then Ok (encode r o) else Err AssertionError.
Proof.
  intros s r o. unfold gen_shadow_encode_offset. cbn [rng_of rstart rstop fst snd].
  rewrite tie_shadow_encode. destruct (set_mem _ _); reflexivity.
Qed.
Print Assumptions tie_encode_offset.

(* ------------------------------------------------------------------ _Shadow.add *)
(* set.add on the element list *)
Definition elems_add (x : rng) (s : rset) : rset :=
  if set_mem x s then s else mk_rset (rs_elems s ++ [x]) false.

Theorem tie_shadow_add : forall s r,
  gen_shadow_add s (rng_of r) =
  if rs_frozen (sh_ranges s)
  then (if set_mem (rng_of r) (sh_ranges s) then Ok s else Err AssertionError)
  else Ok (mk_shadow (sh_name s) (sh_granularity s) (sh_overlaps s) (elems_add (rng_of r) (sh_ranges s))
                     (Z.max (sh_size s) (reg_size r)) (sh_chunks s)).
Proof.
  intros s r. unfold gen_shadow_add, set_add, elems_add. destruct s as [nm g ov rs sz ch]. cbn.
  destruct (rs_frozen rs); [destruct (set_mem _ _); reflexivity|]. cbn. reflexivity.
Qed.
Print Assumptions tie_shadow_add.

(* adding the registers of a list one after the other (what the first loop of elaborate() does to one shadow) *)
Fixpoint add_all (s : shadow) (regs : list reg) : res shadow :=
  match regs with
  | [] => Ok s
  | r :: regs' => match gen_shadow_add s (rng_of r) with Ok s' => add_all s' regs' | Err e => Err e end
  end.

Lemma init_size_app pre regs : init_size (pre ++ regs) = fold_left (fun s r => Z.max s (reg_size r)) regs (init_size pre).
Proof. unfold init_size. apply fold_left_app. Qed.

Lemma add_all_from nm g ov ch : forall regs pre, NoDup (map rng_of (pre ++ regs)) ->
  add_all (mk_shadow nm g ov (mk_rset (map rng_of pre) false) (init_size pre) ch) regs =
  Ok (mk_shadow nm g ov (mk_rset (map rng_of (pre ++ regs)) false) (init_size (pre ++ regs)) ch).
Proof.
  induction regs as [|r regs IH]; intros pre Hnd; [rewrite app_nil_r; reflexivity|].
  cbn [add_all]. rewrite tie_shadow_add. cbn [sh_ranges rs_frozen sh_name sh_granularity sh_overlaps sh_size sh_chunks].
  unfold elems_add. rewrite set_mem_false.
  - cbn [rs_elems]. replace (pre ++ r :: regs) with ((pre ++ [r]) ++ regs) in * by (rewrite <- app_assoc; reflexivity).
    rewrite <- IH by exact Hnd. f_equal. f_equal.
    + rewrite map_app. reflexivity.
    + rewrite init_size_app. reflexivity.
  - cbn [rs_elems]. rewrite map_app in Hnd. cbn in Hnd. apply NoDup_remove_2 in Hnd.
    intros H. apply Hnd. apply in_or_app. left; exact H.
Qed.

(* from the empty shadow: the size is the model's init_size, the set holds every range once *)
Theorem tie_shadow_add_all : forall regs nm g ov ch, NoDup (map rng_of regs) ->
  add_all (mk_shadow nm g ov set_new (init_size []) ch) regs =
  Ok (mk_shadow nm g ov (mk_rset (map rng_of regs) false) (init_size regs) ch).
Proof. intros. apply (add_all_from nm g ov ch regs []). exact H. Qed.
Print Assumptions tie_shadow_add_all.

(* ------------------------------------------------------------------ Chunk *)
Definition chunk_of (s : shadow) (o : Z) (rs : list rng) : chunk :=
  match gen_chunk_init s o rs with Ok c => c | Err _ => mk_chunk [] (AConst 0) (AConst 0) (AConst 0) [] end.

(* Chunk(...) never fails and registers() yields exactly the ranges it was given, in that order *)
Theorem tie_chunk : forall s o rs,
  gen_chunk_init s o rs = Ok (chunk_of s o rs) /\ gen_chunk_registers (chunk_of s o rs) = Ok rs.
Proof. intros s o rs. unfold chunk_of, gen_chunk_init, gen_chunk_registers. cbn. split; reflexivity. Qed.
Print Assumptions tie_chunk.

(* a chunk only depends on the name and the granularity of its shadow *)
Lemma chunk_of_indep s s' o rs : sh_name s = sh_name s' -> sh_granularity s = sh_granularity s' ->
  chunk_of s o rs = chunk_of s' o rs.
Proof. intros H1 H2. unfold chunk_of, gen_chunk_init. rewrite H1, H2. reflexivity. Qed.

(* ------------------------------------------------------------------ _Shadow.chunks *)
Theorem tie_shadow_chunks : forall s,
  gen_shadow_chunks s = match sh_chunks s with Some d => Ok d | None => Err OtherError end.
Proof.
  intros s. unfold gen_shadow_chunks. destruct (sh_chunks s) as [d|]; [|reflexivity]. cbn [bind].
  rewrite (py_for_fold d _ (fun st x => st ++ [x])).
  - rewrite (fold_left_snoc_map (fun x => x)). rewrite map_id. reflexivity.
  - intros [o c] st _. reflexivity.
Qed.
Print Assumptions tie_shadow_chunks.

(* ------------------------------------------------------------------ _Shadow.prepare *)
Definition chunk_of0 (nm : pystr) (g : pyint) := chunk_of (mk_shadow nm g VNone set_new 1 None).

(* the loop that fills self._chunks, for any body that constructs the chunk and stores it under its offset *)
Lemma chunks_loop nm g ov rs sz (body : Z * list rng -> shadow -> res (shadow * bool)) :
  (forall o l s d, sh_chunks s = Some d ->
     body (o, l) s = Ok (set_sh_chunks s (Some (dict_set d o (chunk_of s o l))), false)) ->
  forall l acc, NoDup (keys acc ++ keys l) ->
  py_for l body (mk_shadow nm g ov rs sz (Some acc)) =
  Ok (mk_shadow nm g ov rs sz (Some (acc ++ map (fun p => (fst p, chunk_of0 nm g (fst p) (snd p))) l))).
Proof.
  intros Hb. induction l as [|[o rl] l IH]; intros acc Hnd; [cbn; rewrite app_nil_r; reflexivity|].
  cbn [py_for]. rewrite (Hb o rl _ acc) by reflexivity.
  assert (Hset : dict_set acc o (chunk_of (mk_shadow nm g ov rs sz (Some acc)) o rl) = acc ++ [(o, chunk_of0 nm g o rl)]).
  { unfold chunk_of0. rewrite (chunk_of_indep _ (mk_shadow nm g VNone set_new 1 None)) by reflexivity.
    apply dict_set_new. cbn in Hnd. apply NoDup_remove_2 in Hnd. intros H. apply Hnd. apply in_or_app. left; exact H. }
  rewrite Hset. unfold set_sh_chunks. cbn [sh_name sh_granularity sh_overlaps sh_ranges sh_size]. rewrite IH.
  - rewrite <- app_assoc. reflexivity.
  - unfold keys in *. rewrite map_app, <- app_assoc. exact Hnd.
Qed.

Definition chunks_of (nm : pystr) (g : pyint) (S : Z) (regs : list reg) : list (Z * chunk) :=
  map (fun p => (fst p, chunk_of0 nm g (fst p) (snd p))) (chunk_dict S regs).

Lemma step_int : forall fuel rec regs nm g v elems Sz ch,
  ascending regs -> Permutation elems (map rng_of regs) ->
  gen_shadow_prepare_body fuel rec (mk_shadow nm g (VInt v) (mk_rset elems false) Sz ch) =
  if can_grow Sz regs && unbalanced Sz v regs
  then rec (mk_shadow nm g (VInt v) (mk_rset elems false) (2 * Sz) ch)
  else Ok (mk_shadow nm g (VInt v) (mk_rset elems true) Sz (Some (chunks_of nm g Sz regs))).
Proof.
  intros fuel rec regs nm g v elems Sz ch Hasc Hperm.
  remember (mk_shadow nm g (VInt v) (mk_rset elems false) Sz ch) as self eqn:Hself.
  assert (Hrs : sh_ranges self = mk_rset elems false) by (subst; reflexivity).
  assert (Hsz : sh_size self = Sz) by (subst; reflexivity).
  assert (Hov : sh_overlaps self = VInt v) by (subst; reflexivity).
  unfold gen_shadow_prepare_body. rewrite ?Hrs, ?Hov. cbn [rs_frozen is_none bind]. rewrite ?Hrs, ?Hov, ?Hsz. cbn [rs_elems zof].
  assert (Hsorted : forall key : rng -> list Z, (forall x, exists t, key x = rstart x :: t) ->
                    py_sorted key elems = map rng_of regs).
  { intros key Hk. apply (py_sorted_perm rng_eq_dec); [apply ascending_klt; assumption|exact Hperm]. }
  rewrite Hsorted by (intros x; eexists; reflexivity).
  match goal with |- context [existsb ?f (map rng_of regs)] => set (cg := existsb f (map rng_of regs)) end.
  assert (Hcg : cg = can_grow Sz regs).
  { unfold cg, can_grow. rewrite existsb_rng_of. apply existsb_ext'. intros r. cbn [rng_of rstart fst]. lia. }
  assert (Hmem : forall r, In r regs -> set_mem (rng_of r) (sh_ranges self) = true).
  { intros r Hr. rewrite Hrs. apply set_mem_In. cbn [rs_elems]. apply Permutation_in with (map rng_of regs);
      [symmetry; exact Hperm|apply in_map; exact Hr]. }
  match goal with |- context [py_for (map rng_of regs) ?b (true, [])] =>
    destruct (prepare_loops Sz v cg regs b) as (d' & E & G) end.
  { intros r [bal d] Hr. eexists. split; cycle 1.
    - cbn [rng_of rstart rstop fst snd]. reflexivity.
    - intros a bal0 d0 Ha. cbn beta iota. rewrite tie_decode_address, (Hmem r Hr), (in_range_addrs r a Ha).
      cbn [andb bind]. rewrite Hsz. unfold cnt_of.
      destruct (cg && _) eqn:Ec; [eexists; reflexivity|].
      destruct cg; [rewrite dd_append_touch|]; reflexivity. }
  unfold dstate, ddict in *. rewrite E. cbn [bind]. rewrite Hcg in *.
  destruct (can_grow Sz regs && unbalanced Sz v regs) eqn:Eb; cbn [negb].
  - subst self. unfold set_sh_size. cbn [sh_name sh_granularity sh_overlaps sh_ranges sh_chunks].
    rewrite (Z.mul_comm Sz 2). destruct (rec _); reflexivity.
  - rewrite (G eq_refl). subst self. unfold set_sh_ranges, set_sh_chunks, set_freeze.
    cbn [sh_name sh_granularity sh_overlaps sh_ranges sh_size sh_chunks rs_elems].
    match goal with |- context [py_for (chunk_dict Sz regs) ?b _] =>
      rewrite (chunks_loop nm g (VInt v) (mk_rset elems true) Sz b) end.
    + reflexivity.
    + intros o l s d Hd. cbn beta iota. rewrite (proj1 (tie_chunk s o l)). cbn [bind]. rewrite Hd. reflexivity.
    + cbn [keys map app]. rewrite chunk_dict_keys. apply table_NoDup.
Qed.


Lemma step_none fuel rec nm g elems Sz ch :
  gen_shadow_prepare_body fuel rec (mk_shadow nm g VNone (mk_rset elems false) Sz ch) =
  gen_shadow_prepare_body fuel rec (mk_shadow nm g (VInt (set_len (mk_rset elems false))) (mk_rset elems false) Sz ch).
Proof.
  unfold gen_shadow_prepare_body. cbn [sh_ranges rs_frozen sh_overlaps is_none bind].
  unfold set_sh_overlaps. cbn [sh_name sh_granularity sh_ranges sh_size sh_chunks]. reflexivity.
Qed.

(* the sharing limit in force: the given one, or the number of registers *)
Definition eff_ov (ovv : pyint) (regs : list reg) : Z := match ovv with VInt v => v | _ => Z.of_nat (List.length regs) end.

Lemma prepare_int : forall fuel regs nm g v elems Sz ch S',
  ascending regs -> Permutation elems (map rng_of regs) ->
  prepare fuel Sz v regs = Some S' ->
  gen_shadow_prepare fuel (mk_shadow nm g (VInt v) (mk_rset elems false) Sz ch) =
  Ok (mk_shadow nm g (VInt v) (mk_rset elems true) S' (Some (chunks_of nm g S' regs))).
Proof.
  induction fuel as [|f IH]; intros regs nm g v elems Sz ch S' Hasc Hperm Hp; [discriminate|].
  cbn [gen_shadow_prepare prepare] in *. rewrite (step_int f _ regs) by assumption.
  destruct (can_grow Sz regs && unbalanced Sz v regs).
  - apply IH; assumption.
  - injection Hp as <-. reflexivity.
Qed.

(* MAIN: the recursion of prepare(), with the model's fuel, ends in the state the model predicts: the size is the one
   Mux.prepare returns, the set is frozen, overlaps is defaulted, and _chunks is the chunk table in first-touch order.
   `elems` is ANY enumeration of the set (sorted() makes the loop independent of it). *)
Theorem tie_prepare : forall fuel regs nm g ovv elems Sz ch S',
  ascending regs -> Permutation elems (map rng_of regs) -> (ovv = VNone \/ exists v, ovv = VInt v) ->
  prepare fuel Sz (eff_ov ovv regs) regs = Some S' ->
  gen_shadow_prepare fuel (mk_shadow nm g ovv (mk_rset elems false) Sz ch) =
  Ok (mk_shadow nm g (VInt (eff_ov ovv regs)) (mk_rset elems true) S' (Some (chunks_of nm g S' regs))).
Proof.
  intros fuel regs nm g ovv elems Sz ch S' Hasc Hperm [->|[v ->]] Hp; [|apply prepare_int; assumption].
  destruct fuel as [|f]; [discriminate|].
  cbn [gen_shadow_prepare]. rewrite step_none.
  change (gen_shadow_prepare_body f (gen_shadow_prepare f) ?s) with (gen_shadow_prepare (S f) s).
  assert (El : set_len (mk_rset elems false) = eff_ov VNone regs).
  { unfold set_len, eff_ov. cbn [rs_elems]. rewrite (Permutation_length Hperm), map_length. reflexivity. }
  rewrite El. apply prepare_int; assumption.
Qed.
Print Assumptions tie_prepare.

(* a prepared shadow is left alone *)
Theorem tie_prepare_frozen : forall fuel s, rs_frozen (sh_ranges s) = true -> gen_shadow_prepare (S fuel) s = Ok s.
Proof. intros fuel s H. cbn [gen_shadow_prepare]. unfold gen_shadow_prepare_body. rewrite H. reflexivity. Qed.
Print Assumptions tie_prepare_frozen.

(* the registers of the chunks are those the model's chunk table lists: the ones touching the chunk, in order *)
Theorem tie_chunk_table : forall nm g S regs,
  map (fun p => (fst p, gen_chunk_registers (snd p))) (chunks_of nm g S regs) =
  map (fun o => (o, Ok (map rng_of (filter (fun r => touches S r o) regs)))) (table S regs).
Proof.
  intros nm g S regs. unfold chunks_of, chunk_dict. rewrite !map_map. apply map_ext. intros o. cbn [fst snd].
  unfold chunk_of0. rewrite (proj2 (tie_chunk _ _ _)), chunk_regs_filter. reflexivity.
Qed.
Print Assumptions tie_chunk_table.
