(* Extraction of the executable models.  ExtrOcamlBasic only; Z/positive/nat stay inductive.
   coqc runs with cwd = coq/, so the file lands in ../ocaml. *)
From Coq Require Import Extraction ExtrOcamlBasic.
From Soc Require Import Lib.Sx Engine.Dispatch.
Extraction Language OCaml.
Extraction "../ocaml/model.ml" run_engine.
