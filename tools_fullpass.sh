#!/bin/sh
# Runs every claimed check's quick command against /repo itself (rewrites evidence/), then validates
# MANIFEST.json and every evidence file against the schemas.  Development aid; not a registered check.
cd "$(dirname "$0")"
fail=0
for p in $(python3 -c "import json; print(' '.join(c['property_id'] for c in json.load(open('MANIFEST.json'))['checks']))"); do
  ./check $p ${1:-quick} 2>&1 | grep -v "^setup-ok\|^$" || true
done
python3-vt - <<'PY'
import json, glob, jsonschema, sys
m = json.load(open("MANIFEST.json"))
jsonschema.validate(m, json.load(open("/root/.vp/MANIFEST.schema.json")))
es = json.load(open("/root/.vp/EVIDENCE.schema.json"))
bad = 0
for c in m["checks"]:
    try:
        e = json.load(open(c["evidence_file"]))
        jsonschema.validate(e, es)
        if e.get("violations"):
            print("evidence reports violations:", c["property_id"]); bad += 1
    except Exception as ex:
        print("INVALID", c["evidence_file"], str(ex)[:200]); bad += 1
print("manifest ok;", len(m["checks"]), "checks;", bad, "bad evidence files; not_applicable:", [x["property_id"] for x in m.get("not_applicable", [])])
sys.exit(1 if bad else 0)
PY
