#!/usr/bin/env python3
"""Regenerates MANIFEST.json from harness/propdefs/*.json and the per-property texts below.
A property is claimed when its propdef and coq/Properties/Cnn.v both exist; every other property is
listed under not_applicable with the reason 'not yet built'."""
import os, json, glob
here = os.path.dirname(os.path.abspath(__file__))

COMMON_NOTE = ("Trusted: Coq 8.16.1 kernel (coqc, coqchk in thorough; vm_compute only in Examples and the in-Coq replay; no "
               "native_compute; every theorem closed under the global context, i.e. no axioms); the hand-written model is tied "
               "to /repo by a sampling correspondence check (not a translator) unless a kernel tie is named; extraction with "
               "ExtrOcamlBasic only + ocaml/driver.ml, cross-checked by evaluating the same run_<engine> inside Coq on a sample; "
               "Amaranth 0.5.10 simulator / CPython semantics. ")

T = {
 "C01": ("proof", "DESIGN.md §5 C01", "hier",
         "Coq theorems over a grammar of hierarchies whose memory maps are built by the same MemoryMap calls as the real constructors. "
         "CSR trees (csr.Decoder over decoders over multiplexers, any depth), all addresses: the routing read off the hardware selects "
         "chunk `off` of register `id` iff the root map decodes the address to `id` and reports it `off` above the register's start "
         "(all_resources / find_resource); unassigned addresses (and idle cycles) raise no r_stb, no w_stb in the next cycle and read zero, "
         "from any state, on the cycle-exact machine; every multiplexer configuration meets C04/C05's premise. Wishbone layer (decoder over "
         "SRAMs and bridges, dense windows between equal geometries or sparse windows under a whole-word root): for every granule address the "
         "routing read off the hardware (root Case patterns, bridge Cat(cycle, adr), SRAM row/lane, then the CSR tree) reaches (id, off) iff "
         "the root map decodes the address to id at offset off (reach_iff_decode, reach_iff_find, unassigned iff unreached); an address outside "
         "every window of the root map selects nobody, and then - trace theorem on the cycle-exact machine - nothing is ever acknowledged, "
         "no SRAM sees cyc or changes, no register is read-strobed. Tied by running every root address (read and write) of generated real "
         "hierarchies against the model, and by an oracle against the real root.memory_map.decode_address()/all_resources()/find_resource().",
         "Cycle-exact composition over the whole-hierarchy machine is proved for held transfers (C01_wb_sram_transfer, C01_wb_bridge_transfer, "
         "..._strobes, ..._read_atomic, ..._write_atomic, C01_wb_decode_selects*): which subordinate sees cyc, which register is strobed in which "
         "cycle, single acknowledge, nothing else touched. Left open (recorded in Properties/C01.v): translation of whole ResourceInfo records from "
         "the root map to a bridge's own tree map in the cycle-exact statements (address translation is proved), data clauses for registers spanning "
         "several Wishbone words (covered by C06's tree theorems on the bridge's CSR trace), requests that change mid-transfer, windows outside the "
         "domain (sparse with finer granularity, ratio > 1). Arbitrary user glue between components is outside the grammar; the acknowledge clause is "
         "read as in DESIGN §5 C01.",
         "machine-checked proof in Coq (composition of the component theorems by induction over the hierarchy) + correspondence on real hierarchies"),
 "C02": ("proof", "DESIGN.md §5 C02", "memmap",
         "Coq theorems over a structure-mirroring model of memory.py for every reachable world (any finite history of add_resource/"
         "add_window/align_to/freeze calls with arbitrary arguments): ranges disjoint and in bounds, sizes and placement by the least-multiple "
         "rule, reports exact and ascending, failed calls change nothing, frozen maps reject, asserts unreachable. Tied call-by-call to real "
         "MemoryMap objects with every query re-asked after every call.",
         "Ratio>1 dense windows: as scoped by the property (no numeric alignment rule).",
         "machine-checked proof in Coq (invariant by induction over API histories; bisection lemmas) + call-by-call correspondence"),
 "C03": ("proof", "DESIGN.md §5 C03", "memmap",
         "Coq theorems for every tree of maps reachable through the API and inside the property's domain (all_resources does not raise): "
         "translation arithmetic through windows, ascending/disjoint reports, decode_address iff a reported range contains the address (all of Z), "
         "find_resource agrees with all_resources, every addition reported once.",
         "Trees only (a map as a window of itself is excluded).",
         "machine-checked proof in Coq (structural induction over the nested map tree) + call-by-call correspondence"),
 "C04": ("proof", "DESIGN.md §5 C04/C05", "mux",
         "Coq theorems over a model of csr.Multiplexer for every well-formed layout and admissible shadow size: read strobe exactness and "
         "zero-when-idle for ALL input sequences; read atomicity (snapshot at the first-chunk read) under the protocol premise stated on the "
         "trace, whatever happens in between. Tied by a cycle-exact port-level differential run incl. the computed shadow sizes.",
         "", "machine-checked proof in Coq (trace induction, snapshot invariant, hash injectivity lemmas) + port-level correspondence"),
 "C05": ("proof", "DESIGN.md §5 C04/C05", "mux",
         "Coq theorems over the same model: write strobe exactly one cycle after a write to the last address for ALL input sequences; write "
         "atomicity under the protocol premise; stray writes inert; the sharing limit unobservable; prepare() terminates and yields an admissible "
         "size for every layout and limit.",
         "", "machine-checked proof in Coq (trace induction, per-chunk history invariant) + port-level correspondence"),
 "C06": ("proof", "DESIGN.md §5 C06", "csrdec",
         "Coq theorems over a model of csr.Decoder and window_patterns(): the bit-level pattern matches exactly the window's aligned span; exactly "
         "one subordinate is strobed (the one whose span contains the address) with low address bits, data and strobes unchanged; read mux; nested "
         "decoders compose; a tree of decoders over multiplexers gives every register exactly the strobes, read data and (at its write strobe) "
         "write data of the same register on one multiplexer at the addresses all_resources() reports, incl. C04/C05 atomicity at root addresses. "
         "Tied on real decoder trees, every root address.",
         "Window list (starts aligned, disjoint) is a hypothesis here, proved for the allocator in C02.",
         "machine-checked proof in Coq (bit-level pattern lemma, routing by case analysis, induction over decoder trees) + correspondence"),
 "C07": ("proof", "DESIGN.md §5 C07", "wbdec",
         "Coq theorems over a model of wishbone.Decoder for every geometry and feature subset: at most one cyc, selected iff window contains the "
         "address, request relay with defaults and select fan-out, response relay under the Wishbone premise, add() rejects iff. Known finding K1 "
         "(dense window onto a finer-granularity subordinate) is probed every run and reported as KNOWN-FINDING.",
         "Window list is a hypothesis (C02 proves it for the allocator).",
         "machine-checked proof in Coq + port-level correspondence on every word address"),
 "C08": ("proof", "DESIGN.md §5 C08/C09", "arbiter",
         "Coq theorems over a parametric model of the arbiter (any number of initiators, any feature subsets, all input traces): reachable grant in "
         "range, owner drives bus, responses isolated, no pre-emption while busy. Tied by a cycle-exact port-level differential run; the oracle reads "
         "the design's own grant register.",
         "", "machine-checked proof in Coq (invariant by induction over traces) + model/implementation correspondence check"),
 "C09": ("proof", "DESIGN.md §5 C08/C09", "arbiter",
         "Coq theorems: the emitted If-chain equals the round-robin next-owner function for every N; exact next owner on every transition from "
         "every reachable state; bounded waiting (a continuous requester is granted after fewer than N-1 releases) by a decreasing cyclic-distance "
         "measure, for all schedules.",
         "Fairness premise (owners eventually release) is the property's own.",
         "machine-checked proof in Coq (refinement of the If-chain to round-robin; variant argument) + correspondence check"),
 "C10": ("proof", "DESIGN.md §5 C10", "bridge",
         "Coq theorems over a model of WishboneCSRBridge for every power-of-two ratio and all traces: sequencer invariant, no stray strobe; under the "
         "held-transfer premise: one CSR access per selected granule in order at adr*ratio+i, single acknowledge at ratio+1, read lanes, idle again.",
         "", "machine-checked proof in Coq (state invariant + transfer theorem by induction over the granule counter) + port-level correspondence"),
 "C11": ("proof", "DESIGN.md §5 C11", "regpack",
         "Coq theorems for every field tree and all values: width is the sum, offsets consecutive LSB-first in flatten order, read value/zero "
         "elsewhere, write slices, strobes by access, constructor rejects iff.",
         "", "machine-checked proof in Coq (induction over the nested field tree) + correspondence on real csr.Register objects"),
 "C12": ("proof", "DESIGN.md §5 C12", "action",
         "Coq theorems for every width, init and input history: RW holds the last write; RW1C/RW1S word-level formulas proved from the literal "
         "per-bit If pairs (set wins), untouched bits keep, per-bit trace forms; R/W pass-through; reserved inert; data equals read.",
         "", "machine-checked proof in Coq (bitwise identities via Z.bits_inj, trace induction) + correspondence incl. exhaustive small widths"),
 "C13": ("proof", "DESIGN.md §5 C13", "event",
         "Coq theorems: EventMap indices dense, stable, first-add ordered over all call histories; Monitor trigger by mode, pending step, no event "
         "lost, irq iff enabled-and-pending, bit k is source k — all sizes, modes and traces.",
         "", "machine-checked proof in Coq (history and trace induction) + correspondence"),
 "C14": ("proof", "DESIGN.md §5 C14", "csrevent",
         "Coq theorems over the composition multiplexer ∘ glue ∘ monitor: layout always fits, enable read-back, pending write-one-to-clear with "
         "trigger winning, irq follows; tied on real EventMonitor instances attached through a decoder and by wiring.connect().",
         "", "machine-checked proof in Coq (composition of C04/C05/C13 theorems) + port-level correspondence"),
 "C15": ("proof", "DESIGN.md §5 C15", "sram",
         "Coq theorems for every geometry, init image and all traces: ack exactly one cycle after an un-acked request; memory changes iff accepted "
         "write, only selected granules; a read returns the abstract memory (fold of accepted writes over init); read-only never changes.",
         "", "machine-checked proof in Coq (trace induction, refinement to an abstract memory) + correspondence incl. memory image"),
 "C16": ("proof", "DESIGN.md §5 C16", "gpio",
         "Coq theorems for every pin count, geometry and synchroniser depth: mode table, exact input delay, set/clear code beats write, pins "
         "independent; tied on real gpio.Peripheral instances driven through the CSR bus.",
         "", "machine-checked proof in Coq + port-level correspondence"),
 "C17": ("proof", "DESIGN.md §5 C17", "builder",
         "Coq theorems over a model of csr.Builder on top of the C02 map model: explicit offsets honoured, implicit placement first aligned after the "
         "previous register, power-of-two sizes, names are scope paths, rejection iff overlap/overflow/name conflict, frozen builder rejects.",
         "", "machine-checked proof in Coq (induction over add/Cluster/Index histories) + correspondence on real Builder objects"),
 "C18": ("proof", "DESIGN.md §5 C18", "memmap",
         "Coq theorems: the index loop of is_available computes the prefix relation (sound and complete, no index out of range), names of every "
         "reachable map pairwise conflict-free, acceptance decided exactly by the prefix relation, refusal changes nothing, reported paths distinct.",
         "Strings are interned as atoms by the harness.",
         "machine-checked proof in Coq (loop invariant, invariant over histories) + call-by-call correspondence with a collision-prone name pool"),
 "C19": ("proof", "DESIGN.md §5 C19", "elab",
         "Partial by nature: Coq theorems cover termination of the recursive shadow doubling for every layout and limit, idempotence of the "
         "multiplexer bookkeeping, name joining, definedness of the partial operations accepted parameters lead to, unreachability of asserts; "
         "'no other exception, identical RTLIL on repeated elaboration, metadata untouched, bounded time' for every component class is decided by a "
         "differential sweep of real instances.",
         "Python-level termination of Amaranth itself is not modelled.",
         "machine-checked proof in Coq for the stateful/recursive logic + exhaustive-by-class elaboration sweep"),
 "C20": ("proof", "DESIGN.md §5 C20", "wiring",
         "Coq theorems over a small model of lib.wiring and the six signature classes, for all parameter tuples (all widths, 64 feature subsets): "
         "equality iff parameters equal, create round-trip, members follow parameters, every listed target port connects to the complementary "
         "interface. The substance is in the tie: real flattened members compared and wiring.connect() really called.",
         "Amaranth's Shape.cast / wiring.connect used as given.",
         "machine-checked proof in Coq over all parameter tuples + differential check incl. real wiring.connect() calls"),
}

ENG_TEXT = {}
for f in sorted(glob.glob(os.path.join(here, "harness", "engines", "*.py"))):
    n = os.path.basename(f)[:-3]
    if n == "__init__":
        continue
    doc = ""
    src = open(f).read()
    if src.startswith('"""'):
        doc = src[3:src.index('"""', 3)].strip().splitlines()[0]
    ENG_TEXT[n] = doc

STAGE_FLAGS = ["kernels", "methods", "rangemap", "lookup", "namespace", "eventmap", "regfields", "shadow", "signatures",
               "busctors", "periphctors", "builderrest", "builder", "ctors"]
checks = []
na = []
served = {}
for i in range(1, 21):
    pid = f"C{i:02d}"
    pd = os.path.join(here, "harness", "propdefs", pid + ".json")
    pf = os.path.join(here, "coq", "Properties", pid + ".v")
    if os.path.exists(pd) and os.path.exists(pf):
        d = json.load(open(pd))
        cat, ref, eng, text, extra, tech = T[pid]
        stages = [k for k in STAGE_FLAGS if d.get(k)]
        if stages:
            tech += ("; plus source-to-Gallina translator ties regenerated from /repo and re-proved on every run (stages: "
                     + ", ".join(stages) + "; DESIGN.md 11.3)")
        for e in d["engines"]:
            served.setdefault(e, []).append(pid)
        checks.append({
            "property_id": pid, "quick_cmd": f"./check {pid} quick", "thorough_cmd": f"./check {pid} thorough",
            "evidence_file": f"evidence/{pid}.json", "replay_cmd_template": f"./check {pid} --replay {{path}}",
            "engine": d["engines"][0],
            "level_claimed": {"category": cat, "text": text, "design_ref": ref},
            "level_note": COMMON_NOTE + extra + " Modelled rather than verified: " + "; ".join(d.get("trusted_base", [])),
            "technique": tech})
    else:
        na.append({"property_id": pid, "reason": "not yet built in this session (model, theorems and engine pending; the technique applies)"})

m = {
 "version": 1,
 "setup_cmd": "./setup.sh",
 "hooks": {"guard": "AMARANTH_SOC_VERIF",
           "enable": "no source hooks are needed: every observation is a public port, a public API result, or a signal found by name in the elaborated design; checks import /repo's working tree directly (PYTHONPATH=/repo)",
           "baseline_off_cmd": "cd /repo && /venv/bin/python -m pytest -ra -q -p no:cacheprovider --timeout=900",
           "source_commits": [], "add_only": True},
 "engines": [{"name": e, "path": f"harness/engines/{e}.py", "serves_properties": ps, "kind_free_text": ENG_TEXT.get(e, "")}
             for e, ps in sorted(served.items())],
 "checks": checks,
 "not_applicable": na,
 "notes": "All claimed checks decide their property by machine-checked Coq theorems over a model plus a checked model/implementation correspondence; see DESIGN.md. Genuine defects found and repaired in /repo are listed in known_findings.json (fixed: entries)."
}
json.dump(m, open(os.path.join(here, "MANIFEST.json"), "w"), indent=1)
print("claimed:", [c["property_id"] for c in checks])
